#!/usr/bin/env python3
"""Prints the prompt given to an independent sub-agent that seeds a property-breaking change.
The agent gets only the property text and a scratch worktree; nothing from /verif."""
import sys
pid = sys.argv[1]
n = sys.argv[2] if len(sys.argv) > 2 else "two"
# optional: explicit names for the changes (a later round must not overwrite an earlier one) and an extra generic hint
names = sys.argv[3].split(",") if len(sys.argv) > 3 else None
hint = sys.argv[4] if len(sys.argv) > 4 else ""
print(f"""You are helping evaluate a verification framework by seeding realistic defects into a Rust library.
Work ONLY inside the git worktree /tmp/seedwt-{pid} (a checkout of the crate librqbit-utp, a uTP / BEP-29 reliable transport over UDP). Do NOT read or write anything under /verif or /repo. There is no network: always pass --offline to cargo.

The property to break is described in /tmp/seedout/{pid}.property.json - read it first; its `anchors` point at the relevant code. Read the code it points at.

Task: produce {n} independent, realistic source changes (name them {", ".join(names) if names else "a, b, ..."}; different mechanisms and different code sites{"; " + hint if hint else ""}) to the library's non-test code under src/ such that EACH change:
1. still compiles and the existing test suite still passes completely, unedited: `cd /tmp/seedwt-{pid} && cargo test --workspace --no-fail-fast --offline` (76 tests pass on the original tree; run it with your change - all must still pass; a few tests are #[ignore]d, leave them);
2. breaks the property - but only under something specific: a particular interleaving, a loss/fault at a particular point, a multi-step sequence of operations, an unusual input or configuration, or two cooperating sites that each look fine alone. NOT something ordinary use would expose at once (not "every transfer is corrupted");
3. looks like a plausible programmer mistake or refactoring slip (off-by-one, wrong variable, dropped condition, reordered statements, missed wake-up, stale value ...) and is small (a few lines);
4. does not touch src/verif.rs, anything under cfg(feature = "verif"), or Cargo.toml.

For each change give a demonstration: a new test inside the crate (a new file or an appended test module; internals are private so it has to live in the crate; you may use src/test_util and copy the patterns of src/stream_dispatch/tests/*.rs, src/socket.rs tests, src/e2e_tests) that PASSES on the unmodified tree and FAILS with the change applied. Verify both directions by actually running it.

Deliverables - write into {", ".join(f"/tmp/seedout/{pid}{x}/" for x in names) if names else f"/tmp/seedout/{pid}a/, /tmp/seedout/{pid}b/, ..."} :
- patch.diff : `git diff` of the library change ONLY (must apply with `git apply` to the original tree at HEAD);
- demo.diff  : `git diff` adding ONLY the demonstration test(s) (must apply to the original tree independently of patch.diff);
- notes.md   : which clause of the property it breaks, what exactly it needs in order to manifest (the trigger), and the exact commands you ran with their outcomes (suite passes with the patch; demo passes without it and fails with it).
When finished, restore the worktree sources (`git checkout -- . ; git clean -fd -e target`). Your final answer: a 5-line summary per change.""")
