//! Monitors: small state machines fed with every transition (action, emitted datagrams, application
//! results, observers). Each finding is tagged with the property it decides.

use std::collections::{BTreeMap, BTreeSet};

use super::world::*;
use crate::duo::scenario::coded;

#[derive(Clone, Debug)]
pub struct Finding {
    pub property: &'static str,
    pub monitor: &'static str,
    pub signature: String,
    pub detail: String,
}

fn f(property: &'static str, monitor: &'static str, signature: impl Into<String>, detail: impl Into<String>) -> Finding {
    Finding { property, monitor, signature: signature.into(), detail: detail.into() }
}

#[derive(Clone, Debug)]
pub struct TxSeg {
    pub off: u64,
    pub len: usize,
    pub first_t: u64,
    pub last_t: u64,
    pub count: usize,
    /// the scripted peer acknowledged it (cumulatively or selectively)
    pub acked: bool,
}

fn sdist(a: u16, b: u16) -> i32 {
    a.wrapping_sub(b) as i16 as i32
}

pub struct Monitors {
    pub cfg: SoloCfg,
    /// when the scripted peer last acknowledged (cumulatively or selectively) something new
    pub last_news_t: Option<u64>,
    /// something that justifies one more ST_FIN happened since the last one went out: a retransmission
    /// timeout, or the transport refused / deferred a datagram
    pub fin_rtx_credit: bool,
    /// a data retransmission happened and the one FIN repeat that may follow it has not been used yet
    pub fin_tail_credit: bool,
    /// the peer acknowledged a sequence number that was never sent (no liveness claims after that)
    pub hostile_ack_seen: bool,
    pub all_findings: Vec<Finding>,
    // ---- sender side (the endpoint's data on the wire) ----
    pub tx: BTreeMap<u16, TxSeg>,
    pub tx_order: Vec<u16>,
    pub fin_seq: Option<u16>,
    pub fin_times: Vec<u64>,
    /// window carried by the last packet the peer sent
    pub peer_last_wnd: u32,
    pub largest_payload_seen: usize,
    pub largest_payload_acked: usize,
    pub largest_peer_payload: usize,
    /// the sequence number first transmitted as an oversized probe and not yet acknowledged
    pub probe_seq: Option<u16>,
    /// the library has (by its rules) discarded this expired probe and will re-cut its bytes
    pub popped_probe: Option<u16>,
    /// probe_seq as it was when the current step began
    pub probe_seq_before: Option<u16>,
    pub rto_recovery_until_before: Option<u16>,
    /// the peer acknowledged an expired probe in its ORIGINAL size after the library had discarded it
    pub desync: bool,
    /// loss episode: Some(recovery point) from the first retransmission until the cumulative ACK passes it
    pub episode: Option<u16>,
    pub loss_seen: bool,
    pub bytes_acked: u64,
    /// after an RTO retransmission: Some(count of segments sent since) until an ACK advances
    pub after_rto: Option<usize>,
    pub zero_wnd: bool,
    // ---- receiver side ----
    pub last_ack_nr: Option<u16>,
    /// (peer packet index, deadline_us) of accepted in-order packets not yet acknowledged on the wire
    pub ack_due: Vec<(usize, u64)>,
    pub unacked_inorder_bytes: usize,
    pub last_adv_wnd: u32,
    pub prev_adv_wnd: u32,
    pub fin_from_peer_seen: bool,
    /// a FIN was delivered at a moment when everything before it had been delivered (the library
    /// does not keep a FIN that arrives ahead of a gap; the peer has to retransmit it)
    pub fin_in_order_seen: bool,
    // ---- retransmission discipline (C06) ----
    /// consecutive duplicate ACKs (RFC 5681 definition) seen from a peer that never sent a SACK
    pub dup_acks: u8,
    pub last_peer_ack: Option<(u16, u32)>,
    pub peer_used_sack: bool,
    /// consecutive SACK-bearing ACKs at the same cumulative ack
    pub sack_dups: u8,
    pub cum_acked_bytes: u64,
    /// RTO value in force and the instant of the last timer-driven retransmission without a new ACK since
    pub last_rto_fire: Option<(u64, u64)>,
    /// a timeout recovery is in progress until the cumulative ACK reaches this sequence number
    /// (the highest one sent when the retransmission timeout fired) - derived from the wire
    pub rto_recovery_until: Option<u16>,
    pub reset_seen: bool,
    pub fin_acked_by_peer: bool,
    // ---- handshake (C17 R1) ----
    pub synack_times: Vec<u64>,
    pub established_seen: bool,
    pub initiator_pkt_seen: bool,
    pub first_data_ever: bool,
    // ---- Nagle (C18): where segmentation stopped because the peer window was used up ----
    pub seg_end_abs: u64,
    pub window_limited_cuts: Vec<u64>,
}

impl Monitors {
    pub fn new(cfg: &SoloCfg) -> Self {
        Monitors {
            last_news_t: None,
            fin_rtx_credit: false,
            fin_tail_credit: false,
            hostile_ack_seen: false,
            cfg: cfg.clone(),
            all_findings: vec![],
            tx: BTreeMap::new(),
            tx_order: vec![],
            fin_seq: None,
            fin_times: vec![],
            peer_last_wnd: if cfg.incoming { 0 } else { cfg.peer_wnd },
            largest_payload_seen: 0,
            largest_payload_acked: 0,
            largest_peer_payload: 0,
            probe_seq: None,
            popped_probe: None,
            probe_seq_before: None,
            rto_recovery_until_before: None,
            desync: false,
            episode: None,
            loss_seen: false,
            bytes_acked: 0,
            after_rto: None,
            zero_wnd: false,
            last_ack_nr: None,
            ack_due: vec![],
            unacked_inorder_bytes: 0,
            last_adv_wnd: cfg.rx_buf as u32,
            prev_adv_wnd: cfg.rx_buf as u32,
            fin_from_peer_seen: false,
            fin_in_order_seen: false,
            dup_acks: 0,
            last_peer_ack: None,
            peer_used_sack: false,
            sack_dups: 0,
            cum_acked_bytes: 0,
            last_rto_fire: None,
            rto_recovery_until: None,
            reset_seen: false,
            fin_acked_by_peer: false,
            synack_times: vec![],
            established_seen: !cfg.incoming,
            initiator_pkt_seen: false,
            first_data_ever: false,
            seg_end_abs: 0,
            window_limited_cuts: vec![],
        }
    }

    /// Monitor state that future judgements depend on (so that merging states never forgets evidence).
    pub fn digest(&self, w: &World, out: &mut Vec<u64>) {
        let now = w.now_us();
        out.push(0x4d4f4e);
        out.push(self.tx.len() as u64);
        for (s, t) in &self.tx {
            // only segments that can still matter: not yet acknowledged
            if !t.acked {
                out.push(*s as u64);
                out.push(t.off);
                out.push(t.len as u64);
                out.push(t.count as u64);
                out.push(now.saturating_sub(t.last_t));
                out.push(now.saturating_sub(t.first_t));
            }
        }
        out.push(self.fin_seq.map(|x| x as u64).unwrap_or(u64::MAX));
        out.push(self.fin_times.len() as u64);
        if let Some(t) = self.fin_times.last() {
            out.push(now.saturating_sub(*t));
        }
        out.push(self.hostile_ack_seen as u64);
        out.push(self.fin_rtx_credit as u64);
        out.push(self.fin_tail_credit as u64);
        out.push(self.last_news_t.map(|t| now.saturating_sub(t).min(self.cfg.inactivity_ms * 1_000)).unwrap_or(u64::MAX));
        out.push(self.peer_last_wnd as u64);
        out.push(self.largest_payload_seen as u64);
        out.push(self.largest_payload_acked as u64);
        out.push(self.largest_peer_payload as u64);
        out.push(self.probe_seq.map(|x| x as u64).unwrap_or(u64::MAX));
        out.push(self.popped_probe.map(|x| x as u64).unwrap_or(u64::MAX));
        out.push(self.desync as u64);
        out.push(self.episode.map(|x| x as u64).unwrap_or(u64::MAX));
        out.push(self.loss_seen as u64);
        out.push(self.bytes_acked);
        out.push(self.after_rto.map(|x| x as u64).unwrap_or(u64::MAX));
        out.push(self.zero_wnd as u64);
        out.push(self.last_ack_nr.map(|x| x as u64).unwrap_or(u64::MAX));
        for (i, d) in &self.ack_due {
            out.push(*i as u64);
            out.push(d.saturating_sub(now));
        }
        out.push(self.unacked_inorder_bytes as u64);
        out.push(self.last_adv_wnd as u64);
        out.push(self.fin_from_peer_seen as u64 | (self.fin_in_order_seen as u64) << 1);
        out.push(self.dup_acks as u64 | (self.sack_dups as u64) << 8 | (self.peer_used_sack as u64) << 16 | (self.reset_seen as u64) << 17 | (self.fin_acked_by_peer as u64) << 18 | (self.established_seen as u64) << 19 | (self.initiator_pkt_seen as u64) << 20);
        out.push(self.last_peer_ack.map(|x| x.0 as u64 | (x.1 as u64) << 16).unwrap_or(u64::MAX));
        out.push(self.cum_acked_bytes);
        out.push(self.rto_recovery_until.map(|x| x as u64).unwrap_or(u64::MAX));
        match self.last_rto_fire {
            Some((rto, t)) => {
                out.push(rto);
                out.push(now.saturating_sub(t));
            }
            None => out.push(u64::MAX),
        }
        out.push(self.seg_end_abs);
        for c in &self.window_limited_cuts {
            // only cuts whose segment is still to be sent matter
            if *c > self.tx.values().map(|t| t.off + t.len as u64).max().unwrap_or(0) {
                out.push(*c);
            }
        }
        out.push(self.synack_times.len() as u64);
        if let Some(t) = self.synack_times.last() {
            out.push(now.saturating_sub(*t));
        }
    }

    /// Called after every transition (and once after the spawn poll, with `act` = None).
    pub fn check(&mut self, w: &World, act: Option<&Act>) -> Vec<Finding> {
        let mut v = vec![];
        let rec = w.trace.last().unwrap().clone();
        self.probe_seq_before = self.probe_seq;
        self.rto_recovery_until_before = self.rto_recovery_until;
        self.c10(&rec, w, &mut v);
        // C14: the size ceiling of the path search is only ever lowered by the failure of an oversized
        // segment (a probe that expired, or that the local link refused) - judged on the state before this
        // step's acknowledgements are applied
        if let (Some(ob), Some(oa)) = (&rec.obs_before, &rec.obs_after) {
            if oa.max_ss < ob.max_ss && !self.desync {
                let strict = self.proven_strict();
                let oversized_outstanding = self.tx.values().any(|t| !t.acked && t.len > strict);
                let oversized_now = rec.emitted.iter().any(|e| e.hdr.ptype == 0 && e.payload.len() > strict);
                if !oversized_outstanding && !oversized_now && rec.rejected.is_empty() {
                    v.push(f(
                        "C14",
                        "mtu-search",
                        "mtu/ceiling-lowered-without-a-failed-oversized-segment",
                        format!("the largest segment size the search will try went from {} to {} although no segment larger than the proven size ({}) was outstanding or refused: the connection can no longer settle on the largest size that fits", ob.max_ss, oa.max_ss, strict),
                    ));
                }
            }
        }
        self.peer_side_updates(&rec, w);
        self.tx_wire(&rec, w, act, &mut v);
        self.rx_wire(&rec, w, act, &mut v);
        self.rtx(&rec, w, act, &mut v);
        self.fsm(&rec, w, act, &mut v);
        self.nagle_and_buffers(&rec, w, act, &mut v);
        self.wakeups(&rec, w, act, &mut v);
        self.all_findings.extend(v.iter().cloned());
        v
    }

    // ------------------------------------------------------------------------------------------
    // C10: no panic, no internal 'bug' error, bounded buffering; C11: emitted datagrams well-formed
    // ------------------------------------------------------------------------------------------
    fn c10(&mut self, rec: &StepRecord, w: &World, v: &mut Vec<Finding>) {
        if let Some(p) = &rec.panicked {
            v.push(f("C10", "panic", "panic/in-connection-poll", format!("the connection's poll panicked: {p}")));
        }
        let mut texts: Vec<String> = vec![];
        if let Some(Err(e)) = &rec.d_result {
            texts.push(e.clone());
        }
        for (_, r) in &rec.app {
            if let AppRes::Err(e) = r {
                texts.push(e.clone());
            }
        }
        for t in texts {
            if t.to_lowercase().starts_with("bug") {
                let kind: String = t.chars().take(40).collect();
                v.push(f("C10", "bug-error", format!("bug-error/{kind}"), format!("internal error surfaced: {t}")));
            }
        }
        // C02: a sender does not give up on a peer that keeps reporting newly received data (cumulatively or
        // selectively): death by inactivity needs a full inactivity timeout without such news
        if let (Some(Err(e)), Some(ob)) = (&rec.d_result, &rec.obs_before) {
            if e.contains("inactive for too long") && ob.state == "established" && !self.hostile_ack_seen {
                if let Some(t) = self.last_news_t {
                    let idle = rec.t_us.saturating_sub(t);
                    if idle + 1_000 < self.cfg.inactivity_ms * 1_000 {
                        v.push(f(
                            "C02",
                            "liveness",
                            "liveness/gave-up-on-a-peer-that-kept-acknowledging",
                            format!("the connection ended with '{e}' only {idle} us after the peer acknowledged data it had not acknowledged before (inactivity timeout {} ms)", self.cfg.inactivity_ms),
                        ));
                    }
                }
            }
        }
        if rec.livelock {
            v.push(f("C02", "livelock", "wake/livelock-at-one-instant", "tasks kept waking each other 64 times without the clock moving".to_string()));
        }
        if rec.unparseable_emit {
            v.push(f("C11", "emitted-wellformed", "emitted/unparseable", "the endpoint emitted a datagram the reference parser rejects".to_string()));
        }
        for e in &rec.emitted {
            if e.hdr.conn_id != w.send_conn_id() {
                v.push(f(
                    "C11",
                    "emitted-wellformed",
                    "emitted/wrong-connection-id",
                    format!("emitted {} with connection id {} but {} is owed to this direction", crate::duo::debug::type_name(e.hdr.ptype), e.hdr.conn_id, w.send_conn_id()),
                ));
            }
        }
        if let Some(o) = &rec.obs_after {
            // what one connection buffers stays bounded by its configured sizes
            if o.rx_queue_bytes > w.cfg.rx_buf {
                v.push(f("C10", "buffer-bound", "buffer/reader-queue-exceeds-rx-buffer", format!("reader queue holds {} bytes, receive buffer is {}", o.rx_queue_bytes, w.cfg.rx_buf)));
            }
            if o.rx_ooq_packets > o.rx_ooq_slots {
                v.push(f("C10", "buffer-bound", "buffer/reassembly-exceeds-slots", format!("{} packets stored in {} reassembly slots", o.rx_ooq_packets, o.rx_ooq_slots)));
            }
            let max_tx = w.cfg.tx_init.max(w.cfg.tx_max);
            if o.tx_ring_len > max_tx || o.tx_ring_cap > max_tx {
                v.push(f("C19", "tx-buffer-bound", "txbuf/exceeds-configured-limit", format!("TX ring holds {} bytes (capacity {}), configured limit {}", o.tx_ring_len, o.tx_ring_cap, max_tx)));
            }
        }
    }

    fn peer_side_updates(&mut self, rec: &StepRecord, w: &World) {
        for (h, plen, _) in &rec.peer_sent {
            if h.ptype == 0 {
                self.largest_peer_payload = self.largest_peer_payload.max(*plen);
            }
            if h.ptype == 3 {
                self.reset_seen = true;
            }
            if h.ptype == 4 || h.ptype == 3 {
                continue;
            }
            self.peer_last_wnd = h.wnd;
            if h.ptype == 1 {
                self.fin_from_peer_seen = true;
                if let Some(fi) = w.peer_fin_idx {
                    if (0..fi).all(|k| w.peer_sent.contains(&k)) {
                        self.fin_in_order_seen = true;
                    }
                }
            }
            // cumulative acknowledgements by the peer (only sequence numbers the endpoint has sent)
            let hi = match w.ep_hi_seq {
                Some(x) => x,
                None => continue,
            };
            if sdist(hi, h.ack) < 0 {
                self.hostile_ack_seen = true;
                continue; // acknowledges data never sent: hostile, proves nothing
            }
            let mut newly = 0u64;
            let mut cum = 0u64;
            for (s, t) in self.tx.iter_mut() {
                if sdist(h.ack, *s) >= 0 {
                    cum = cum.max(t.off + t.len as u64);
                }
                if !t.acked && sdist(h.ack, *s) >= 0 {
                    t.acked = true;
                    newly += t.len as u64;
                    self.largest_payload_acked = self.largest_payload_acked.max(t.len);
                }
            }
            self.cum_acked_bytes = self.cum_acked_bytes.max(cum);
            if let Some(fs) = self.fin_seq {
                if sdist(h.ack, fs) >= 0 {
                    self.fin_acked_by_peer = true;
                }
            }
            if let Some((m, n)) = &h.sack {
                for i in 0..(*n * 8).min(64) {
                    if m[i / 8] & (1 << (i % 8)) != 0 {
                        let s = h.ack.wrapping_add(2).wrapping_add(i as u16);
                        if let Some(t) = self.tx.get_mut(&s) {
                            if !t.acked {
                                t.acked = true;
                                newly += t.len as u64;
                                self.largest_payload_acked = self.largest_payload_acked.max(t.len);
                            }
                        }
                    }
                }
            }
            if let Some(ps) = self.probe_seq {
                if self.tx.get(&ps).map(|t| t.acked).unwrap_or(false) {
                    self.probe_seq = None;
                    if self.popped_probe == Some(ps) {
                        // the peer holds the probe in its original size, the sender has already re-cut it
                        self.desync = true;
                    }
                    self.popped_probe = None;
                }
            }
            if newly > 0 {
                self.bytes_acked += newly;
                self.after_rto = None;
                self.last_news_t = Some(rec.t_us);
            }
            if let Some(rp) = self.episode {
                if sdist(h.ack, rp) >= 0 {
                    self.episode = None;
                }
            }
            if let Some(rp) = self.rto_recovery_until {
                if sdist(h.ack, rp) >= 0 {
                    self.rto_recovery_until = None;
                }
            }
        }
    }

    // ------------------------------------------------------------------------------------------
    // the endpoint as a sender: C01 (bytes on the wire), C05 (windows), C06 (content stability,
    // acknowledged segments), C14 (sizes)
    // ------------------------------------------------------------------------------------------
    fn tx_wire(&mut self, rec: &StepRecord, w: &World, _act: Option<&Act>, v: &mut Vec<Finding>) {
        // a retransmission timeout taken by the sender is a loss event for it even when nothing is put
        // on the wire a second time (the timer can fire with only never-sent segments queued, F16)
        if rec.obs_after.as_ref().map(|o| o.rto_retransmissions > 0).unwrap_or(false) {
            self.loss_seen = true;
        }
        let link_payload_max = w.cfg.link_mtu - if w.cfg.ipv6 { 48 } else { 28 };
        for e in &rec.emitted {
            if e.len > link_payload_max {
                v.push(f(
                    "C14",
                    "datagram-size",
                    "mtu/datagram-exceeds-link-mtu",
                    format!("emitted a {}-byte datagram ({}), the configured link MTU {} allows {} bytes of UDP payload", e.len, crate::duo::debug::type_name(e.hdr.ptype), w.cfg.link_mtu, link_payload_max),
                ));
            }
            if e.hdr.ptype == 1 {
                if self.fin_seq.is_none() {
                    self.fin_seq = Some(e.hdr.seq);
                }
                self.fin_times.push(e.t_us);
                continue;
            }
            if e.hdr.ptype != 0 {
                continue;
            }
            let seq = e.hdr.seq;
            let len = e.payload.len();
            self.largest_payload_seen = self.largest_payload_seen.max(len);
            if let Some(t) = self.tx.get(&seq).cloned() {
                // ---- retransmission ----
                if t.acked {
                    v.push(f(
                        "C06",
                        "rtx-discipline",
                        if self.desync { "probe/acked-after-expiry-desynchronises-stream" } else { "rtx/acknowledged-segment-retransmitted" },
                        format!("sequence number {} ({} bytes at offset {}) had been acknowledged by the peer and was transmitted again", seq, t.len, t.off),
                    ));
                }
                let is_newest = self.tx_order.last() == Some(&seq);
                if len != t.len {
                    // a never-acknowledged size probe (the newest segment) may be re-cut from the same offset
                    let recut_ok = is_newest && !t.acked && self.probe_seq == Some(seq);
                    if !recut_ok && t.acked && !self.desync {
                        // the peer holds this sequence number in its original size: everything behind it
                        // is laid out at other stream positions by the two ends from now on
                        v.push(f(
                            "C01",
                            "wire-payload",
                            "payload/acknowledged-sequence-number-recut",
                            format!("sequence number {} was acknowledged by the peer as {} bytes and is now re-sent as {} bytes: the stream positions of all later data differ between the two ends", seq, t.len, len),
                        ));
                    }
                    if !recut_ok {
                        v.push(f(
                            "C06",
                            "rtx-discipline",
                            if self.desync { "probe/acked-after-expiry-desynchronises-stream" } else { "rtx/length-changed" },
                            format!("sequence number {} first carried {} bytes, now {} bytes (only a never-acknowledged size probe may be re-cut)", seq, t.len, len),
                        ));
                    } else {
                        let tm = self.tx.get_mut(&seq).unwrap();
                        tm.len = len;
                        // the re-cut segment is a new segment under the old number: its retry cap counts from here
                        // (the probe's own transmissions are capped by mtu_probe_max_retransmissions)
                        tm.count = 0;
                        if self.popped_probe == Some(seq) {
                            self.popped_probe = None;
                        }
                        if len <= self.proven_strict() {
                            self.probe_seq = None;
                        }
                    }
                }
                let ok = e.payload.iter().enumerate().all(|(i, b)| *b == coded(t.off + i as u64, SALT_EP));
                if !ok {
                    v.push(f(
                        "C06",
                        "rtx-discipline",
                        if self.desync { "probe/acked-after-expiry-desynchronises-stream" } else { "rtx/bytes-changed" },
                        format!("retransmission of sequence number {} does not carry the bytes at stream offset {}", seq, t.off),
                    ));
                    // a receiver that missed the first transmission now stores different bytes under this sequence number
                    v.push(f(
                        "C01",
                        "wire-payload",
                        if self.desync { "probe/acked-after-expiry-desynchronises-stream" } else { "payload/retransmission-carries-different-bytes" },
                        format!("sequence number {} was first sent with the stream bytes at offset {}; this transmission carries other bytes", seq, t.off),
                    ));
                }
                let tm = self.tx.get_mut(&seq).unwrap();
                tm.count += 1;
                tm.last_t = e.t_us;
                // the episode lasts until the cumulative ACK passes the highest sequence number sent at the
                // moment of the (latest) retransmission - a new recovery inside an old episode extends it
                if let Some(hi) = self.tx_order.last() {
                    self.episode = Some(match self.episode {
                        Some(rp) if sdist(rp, *hi) >= 0 => rp,
                        _ => *hi,
                    });
                }
                self.loss_seen = true;
                if let Some(n) = self.after_rto.as_mut() {
                    *n += 1;
                }
            } else {
                // ---- first transmission ----
                let (off, expected_seq) = match self.tx_order.last() {
                    Some(prev) => {
                        let p = &self.tx[prev];
                        (p.off + p.len as u64, prev.wrapping_add(1))
                    }
                    None => (0, seq),
                };
                if seq != expected_seq {
                    v.push(f("C01", "wire-payload", if self.desync { "probe/acked-after-expiry-desynchronises-stream" } else { "payload/sequence-gap" }, format!("first transmission of sequence number {} but {} was expected next", seq, expected_seq)));
                }
                let ok = e.payload.iter().enumerate().all(|(i, b)| *b == coded(off + i as u64, SALT_EP));
                if !ok || off + len as u64 > w.written {
                    v.push(f(
                        "C01",
                        "wire-payload",
                        if self.desync { "probe/acked-after-expiry-desynchronises-stream" } else { "payload/wrong-bytes-on-wire" },
                        format!("sequence number {} should carry stream bytes [{}, {}) (the application has written {}), payload differs", seq, off, off + len as u64, w.written),
                    ));
                }
                // C14: an ordinary segment never exceeds the largest payload already proven deliverable
                let proven = self.proven();
                if len > self.proven_strict() {
                    self.probe_seq = Some(seq);
                }
                let oversized = len > proven;
                if oversized {
                    // at most one unacknowledged oversized segment, and it is the newest
                    let others = self.tx.values().filter(|t| !t.acked && t.len > proven).count();
                    if others > 0 {
                        v.push(f(
                            "C14",
                            "probe-discipline",
                            "mtu/second-oversized-segment-outstanding",
                            format!("sequence number {} carries {} bytes (> proven {}) while another oversized segment is still unacknowledged", seq, len, proven),
                        ));
                    }
                } else if self.tx.values().any(|t| !t.acked && t.len > proven) {
                    v.push(f(
                        "C14",
                        "probe-discipline",
                        "mtu/segment-sent-behind-outstanding-probe",
                        format!("sequence number {} was sent while an unacknowledged oversized probe is outstanding: the probe is no longer the newest segment", seq),
                    ));
                }
                if self.fin_seq.is_some() {
                    v.push(f("C17", "fsm", "fin/new-data-after-own-fin", format!("ST_DATA with new sequence number {} after the endpoint's own ST_FIN", seq)));
                }
                self.tx.insert(seq, TxSeg { off, len, first_t: e.t_us, last_t: e.t_us, count: 1, acked: false });
                self.tx_order.push(seq);
                // ---- C05: windows, outside loss episodes ----
                if self.episode.is_none() {
                    let outstanding: usize = self.tx.values().filter(|t| !t.acked).map(|t| t.len).sum();
                    if outstanding as u64 > self.peer_last_wnd as u64 {
                        // the retransmission timer fired with nothing in flight and pushed out a segment that
                        // had been cut but never sent (the implementation's accidental window probe)
                        let by_rto_timer = matches!(_act, Some(Act::Tick) | Some(Act::Wait(_)))
                            && rec.peer_sent.is_empty()
                            && rec.obs_before.as_ref().map(|o| o.flight_size == 0 && o.timers[0].is_some() && o.tx_segments > 0).unwrap_or(false);
                        v.push(f(
                            "C05",
                            "peer-window",
                            if by_rto_timer {
                                "window/never-sent-segment-pushed-by-rto-timer"
                            } else if self.peer_last_wnd == 0 {
                                "window/new-data-into-zero-window"
                            } else {
                                "window/outstanding-exceeds-peer-window"
                            },
                            format!("first transmission of sequence number {} puts {} bytes outstanding, the peer's last advertised window is {}", seq, outstanding, self.peer_last_wnd),
                        ));
                    }
                    if !self.loss_seen {
                        let mss = self.largest_payload_seen.max(self.protocol_min_payload());
                        let limit = 2 * mss as u64 + self.bytes_acked;
                        if outstanding as u64 > limit {
                            v.push(f(
                                "C05",
                                "slow-start",
                                "window/slow-start-exceeded",
                                format!("before any loss: {} bytes outstanding > 2 segments ({}) + {} bytes acknowledged so far", outstanding, 2 * mss, self.bytes_acked),
                            ));
                        }
                    }
                }
                if let Some(n) = self.after_rto.as_mut() {
                    *n += 1;
                }
            }
        }
    }

    /// largest payload size already proven deliverable: acknowledged by the peer, or received from the
    /// peer (the implementation counts delivered payloads of either direction, as the property's anchors
    /// say), never more than the link ceiling; at least the protocol minimum
    pub fn proven(&self) -> usize {
        let ceiling = self.cfg.link_mtu - if self.cfg.ipv6 { 48 } else { 28 } - 20;
        self.largest_payload_acked.max(self.largest_peer_payload.min(ceiling)).max(self.protocol_min_payload())
    }

    /// proof by the peer's acknowledgements only: used for *exemptions* (what may count as a size probe)
    pub fn proven_strict(&self) -> usize {
        self.largest_payload_acked.max(self.protocol_min_payload())
    }

    /// smallest payload the protocol may use without proof: min(link ceiling, default minimum MTU payload)
    pub fn protocol_min_payload(&self) -> usize {
        let (ip, min_mtu) = if self.cfg.ipv6 { (48usize, 1280usize) } else { (28, 576) };
        min_mtu.min(self.cfg.link_mtu) - ip - 20
    }

    // ------------------------------------------------------------------------------------------
    // the endpoint as a receiver: C04 (honest ACK / SACK / window), C07 (ACK timeliness), C01 (reads)
    // ------------------------------------------------------------------------------------------
    fn rx_wire(&mut self, rec: &StepRecord, w: &World, act: Option<&Act>, v: &mut Vec<Finding>) {
        let idx_of = |ack: u16| -> i64 { sdist(ack, w.peer_seq_of(0)) as i64 };
        // what the peer has sent in order so far (harness reference): packets 0..contig, plus its FIN
        let contig = w.peer_in_order() as i64; // first index not yet sent
        let fin_counts = matches!(w.peer_fin_idx, Some(fi) if fi as i64 == contig && self.fin_from_peer_seen);
        let max_ack_idx = contig - 1 + if fin_counts { 1 } else { 0 };
        // what the endpoint must have (a FIN only once it arrived in order)
        let must_ack_idx = contig - 1 + if fin_counts && self.fin_in_order_seen { 1 } else { 0 };
        let deliver2 = matches!(act, Some(Act::Deliver2(..) | Act::Deliver3(..)));
        self.prev_adv_wnd = self.last_adv_wnd;
        for e in &rec.emitted {
            if e.hdr.ptype == 4 {
                continue;
            }
            if let Some(prev) = self.last_ack_nr {
                if sdist(e.hdr.ack, prev) < 0 {
                    v.push(f("C04", "ack-honesty", "ack/moved-backwards", format!("ack_nr went from {} to {}", prev, e.hdr.ack)));
                }
            }
            self.last_ack_nr = Some(e.hdr.ack);
            let ai = idx_of(e.hdr.ack);
            if ai > max_ack_idx {
                v.push(f(
                    "C04",
                    "ack-honesty",
                    "ack/acknowledges-data-never-received",
                    format!("ack_nr {} acknowledges peer packet index {}, but the peer has only sent packets up to index {} in order", e.hdr.ack, ai, max_ack_idx),
                ));
            }
            if w.cfg.peer_respects_window && w.reader.is_some() && ai < must_ack_idx && w.done.is_none() && !deliver2 {
                v.push(f(
                    "C04",
                    "ack-honesty",
                    "ack/understates-in-order-data",
                    format!("a window-respecting peer has sent packets up to index {} in order, but the endpoint's ack_nr {} covers only index {}", must_ack_idx, e.hdr.ack, ai),
                ));
            }
            // selective ACK bits
            if let Some((m, n)) = &e.hdr.sack {
                for i in 0..(*n * 8).min(64) {
                    if m[i / 8] & (1 << (i % 8)) != 0 {
                        let pi = ai + 2 + i as i64;
                        let fin_bit = matches!(w.peer_fin_idx, Some(fi) if fi as i64 == pi && self.fin_from_peer_seen);
                        if !(pi >= 0 && w.peer_sent.contains(&(pi as usize))) && !fin_bit {
                            v.push(f(
                                "C04",
                                "sack-honesty",
                                "sack/bit-for-packet-never-received",
                                format!("selective-ACK bit {} (sequence number {}) is set but the peer never sent that packet", i, e.hdr.ack.wrapping_add(2).wrapping_add(i as u16)),
                            ));
                        }
                    }
                }
            }
            if e.hdr.ptype == 2 && w.cfg.peer_respects_window && w.reader.is_some() && !deliver2 {
                // completeness: every packet held out of order (within 64 bits) is SACKed
                for pi in w.peer_sent.iter().map(|x| *x as i64) {
                    let bit = pi - (ai + 2);
                    if bit >= 0 && bit < 64 {
                        let set = e.hdr.sack.as_ref().map(|(m, n)| (bit as usize) < n * 8 && m[bit as usize / 8] & (1 << (bit as usize % 8)) != 0).unwrap_or(false);
                        if !set {
                            v.push(f(
                                "C04",
                                "sack-honesty",
                                "sack/held-packet-not-reported",
                                format!("peer packet index {} is held out of order (ack covers index {}), but its selective-ACK bit is not set", pi, ai),
                            ));
                        }
                    }
                }
            }
            // advertised window vs. free space actually left
            if let (Some(o), false) = (&rec.obs_after, deliver2) {
                let used = o.rx_queue_bytes + o.rx_ooq_bytes;
                let free = w.cfg.rx_buf.saturating_sub(used);
                if e.hdr.wnd as usize > free && w.done.is_none() {
                    v.push(f(
                        "C04",
                        "window-honesty",
                        "window/advertised-exceeds-free-space",
                        format!("advertised window {} but only {} bytes of the {}-byte receive buffer are free ({} queued for the reader, {} in reassembly)", e.hdr.wnd, free, w.cfg.rx_buf, o.rx_queue_bytes, o.rx_ooq_bytes),
                    ));
                }
            }
            // ACK obligations discharged by this packet - in time?
            for (i, d) in &self.ack_due {
                if (*i as i64) <= ai && e.t_us > *d {
                    v.push(f(
                        "C07",
                        "ack-timeliness",
                        "ack/delayed-ack-deadline-missed",
                        format!("peer packet {} was accepted in order and had to be acknowledged by {} us; the ACK covering it went out at {} us", i, d, e.t_us),
                    ));
                }
            }
            self.ack_due.retain(|(i, _)| *i as i64 > ai);
            if self.ack_due.is_empty() {
                self.unacked_inorder_bytes = 0;
            }
            self.last_adv_wnd = e.hdr.wnd;
        }
        if let Some(o) = &rec.obs_after {
            if w.cfg.peer_respects_window && o.rx_queue_bytes + o.rx_ooq_bytes > w.cfg.rx_buf {
                v.push(f(
                    "C04",
                    "window-honesty",
                    "buffer/window-respecting-peer-overflows-receiver",
                    format!("a peer that respected every advertised window made the receiver hold {} bytes, the configured receive buffer is {}", o.rx_queue_bytes + o.rx_ooq_bytes, w.cfg.rx_buf),
                ));
            }
        }
        // C01 at the read side
        if !w.read_ok {
            v.push(f("C01", "read-prefix", "integrity/wrong-bytes-read", format!("bytes returned by poll_read differ from what the peer sent (read so far: {})", w.read)));
        }
        let sent_bytes_in_order = w.peer_off_of(w.peer_in_order());
        if w.read > sent_bytes_in_order {
            v.push(f("C01", "read-prefix", "integrity/read-more-than-sent", format!("read {} bytes, the peer has sent only {} in order", w.read, sent_bytes_in_order)));
        }
        // (several read results can fall into one step - the reader is re-polled when woken, or reads twice on
        // its own thread: "nothing readable" is judged on the last one, when the reader is left parked)
        let last_read = rec.app.iter().rposition(|(who, _)| *who == "read");
        for (ri, (who, r)) in rec.app.iter().enumerate() {
            if *who == "read" {
                if let (AppRes::Pending, true) = (r, Some(ri) == last_read) {
                    // nothing readable: then nothing acknowledged may be unread (acknowledged data is never discarded)
                    if let Some(a) = self.last_ack_nr {
                        let ai = idx_of(a).min(contig - 1);
                        let acked_bytes = if ai >= 0 { w.peer_off_of((ai + 1) as usize) } else { 0 };
                        // the peer's FIN counts too: once it is acknowledged (it arrived in order) and every byte
                        // before it has been read, the reader is owed the end of the stream
                        if let Some(fi) = w.peer_fin_idx {
                            let fin_acked = self.fin_in_order_seen && sdist(a, w.peer_seq_of(fi as i64)) >= 0;
                            if fin_acked && w.read == w.peer_off_of(fi) && w.done.is_none() && w.cfg.peer_respects_window {
                                v.push(f(
                                    "C04",
                                    "ack-honesty",
                                    "ack/acknowledged-fin-not-delivered-as-end-of-stream",
                                    format!("the endpoint acknowledged the peer's FIN (seq {}), the reader has read all {} bytes before it and poll_read is Pending instead of reporting the end of the stream", w.peer_seq_of(fi as i64), w.read),
                                ));
                            }
                        }
                        if acked_bytes > w.read && w.done.is_none() {
                            v.push(f(
                                "C04",
                                "ack-honesty",
                                "ack/acknowledged-data-not-readable",
                                format!("the endpoint acknowledged {} bytes of the peer's stream, the reader has got {} and poll_read is Pending", acked_bytes, w.read),
                            ));
                        }
                    }
                }
                if let AppRes::Err(e) = r {
                    // an error instead of data: only an aborted connection may cost the reader acknowledged bytes -
                    // not one that is alive or has closed in good order
                    let aborted = matches!(&w.done, Some(Err(_))) || self.reset_seen;
                    if let Some(a) = self.last_ack_nr {
                        let ai = idx_of(a).min(contig - 1);
                        let acked_bytes = if ai >= 0 { w.peer_off_of((ai + 1) as usize) } else { 0 };
                        if acked_bytes > w.read && !aborted {
                            v.push(f(
                                "C04",
                                "ack-honesty",
                                // (a peer that ignored the advertised window: what it sent beyond it was stored and
                                // acknowledged all the same, and is lost when the connection closes in good order
                                // before the reader has made room - known finding F32)
                                if w.peer_exceeded_window && matches!(&w.done, Some(Ok(()))) { "ack/data-beyond-the-window-acknowledged-then-discarded-at-close" } else { "ack/acknowledged-data-lost-to-a-reader-error" },
                                format!("poll_read failed with '{e}' after {} bytes although the endpoint had acknowledged {} bytes of the peer's stream and the connection was not aborted ({:?})", w.read, acked_bytes, w.done),
                            ));
                            v.push(f(
                                "C03",
                                "eof",
                                "eof/error-instead-of-acknowledged-data",
                                format!("poll_read failed with '{e}' after {} bytes although the endpoint had acknowledged {} bytes of the peer's stream and the connection was not aborted ({:?})", w.read, acked_bytes, w.done),
                            ));
                        }
                    }
                }
                if let AppRes::Eof = r {
                    let total = match w.peer_fin_idx {
                        Some(fi) => w.peer_off_of(fi),
                        None => u64::MAX,
                    };
                    if w.read != total {
                        v.push(f("C03", "eof", "eof/position-differs-from-fin", format!("reader saw end-of-stream after {} bytes, {} bytes precede the peer's FIN", w.read, total)));
                    }
                }
            }
        }
        // ---- C07: ACK timeliness (Established, live reader, transport accepting) ----
        let established = rec.obs_after.as_ref().map(|o| o.state == "established").unwrap_or(false) && rec.obs_before.as_ref().map(|o| o.state == "established").unwrap_or(false);
        let transport_ok = !matches!(act, Some(Act::TransportPendingOnce | Act::TransportPendingHold)) && rec.rejected.is_empty() && w.tr.lock().pending_hold_steps == 0;
        let mss = rec.obs_after.as_ref().map(|o| o.mss as usize).unwrap_or(self.protocol_min_payload());
        if established && w.reader.is_some() && transport_ok && !deliver2 {
            let acked_idx_after = self.last_ack_nr.map(|a| idx_of(a)).unwrap_or(-1);
            let emitted_ack = !rec.emitted.is_empty();
            for (h, plen, idx) in &rec.peer_sent {
                match (h.ptype, idx) {
                    (0, Some(i)) => {
                        let i = *i as i64;
                        // classification relative to what had been sent in order BEFORE this packet
                        let before_contig = {
                            // indices < i all sent?
                            (0..i).all(|k| w.peer_sent.contains(&(k as usize)))
                        };
                        let dup = self.already_delivered_before(w, i as usize, rec);
                        let beyond_exists = w.peer_sent.iter().any(|k| (*k as i64) > i);
                        if dup {
                            if !emitted_ack {
                                v.push(f("C07", "ack-timeliness", "ack/duplicate-not-acked-immediately", format!("duplicate of peer packet {} arrived, no ACK in the same instant", i)));
                            }
                        } else if !before_contig {
                            if !emitted_ack {
                                v.push(f("C07", "ack-timeliness", "ack/out-of-order-not-acked-immediately", format!("peer packet {} arrived out of order, no ACK in the same instant", i)));
                            }
                        } else if beyond_exists {
                            if !emitted_ack || acked_idx_after < i {
                                v.push(f("C07", "ack-timeliness", "ack/gap-fill-not-acked-immediately", format!("peer packet {} filled a gap, no ACK covering it in the same instant", i)));
                            }
                        } else {
                            // plain in-order packet: due within 40 ms; immediately at 2 x MSS of unacknowledged bytes
                            if acked_idx_after < i {
                                self.ack_due.push((i as usize, rec.t_us + 40_000));
                                self.unacked_inorder_bytes += *plen;
                                if self.unacked_inorder_bytes >= 2 * mss {
                                    v.push(f(
                                        "C07",
                                        "ack-timeliness",
                                        "ack/two-segments-not-acked-immediately",
                                        format!("{} accepted bytes are unacknowledged (>= 2 x own segment size {}), no ACK in the same instant", self.unacked_inorder_bytes, mss),
                                    ));
                                }
                            }
                        }
                    }
                    _ => {}
                }
            }
        }
        // two datagrams processed by one poll: the immediate-ACK triggers still hold for the pair as a whole -
        // if one of them is a duplicate, some acknowledgement leaves in that instant
        if established && w.reader.is_some() && transport_ok && deliver2 && rec.emitted.is_empty() {
            let dup = rec.peer_sent.iter().enumerate().any(|(k, (h, _, idx))| {
                h.ptype == 0
                    && match idx {
                        Some(i) => w.trace[..w.trace.len() - 1].iter().any(|r| r.peer_sent.iter().any(|(h2, _, i2)| h2.ptype == 0 && *i2 == Some(*i))) || rec.peer_sent[..k].iter().any(|(h2, _, i2)| h2.ptype == 0 && *i2 == Some(*i)),
                        None => false,
                    }
            });
            if dup {
                v.push(f("C07", "ack-timeliness", "ack/duplicate-not-acked-immediately", "a duplicate arrived together with another datagram, no ACK in the same instant".to_string()));
            }
        }
        // a FIN: acknowledged in the same instant, whether it is in order (the connection leaves
        // Established with it), ahead of a gap (out of order) or a retransmission
        let could_receive_before = rec.obs_before.as_ref().map(|o| matches!(o.state, "established" | "fin-wait-1" | "fin-wait-2")).unwrap_or(false);
        if could_receive_before && w.reader.is_some() && transport_ok && !deliver2 && w.done.is_none() {
            for (h, _, _) in &rec.peer_sent {
                if h.ptype != 1 || !rec.emitted.is_empty() {
                    continue;
                }
                let in_order = match w.peer_fin_idx {
                    Some(fi) => (0..fi).all(|k| w.peer_sent.contains(&k)),
                    None => true,
                } && rec.obs_before.as_ref().map(|o| h.seq == o.last_consumed_remote_seq_nr.wrapping_add(1)).unwrap_or(true);
                if in_order {
                    v.push(f("C07", "ack-timeliness", "ack/fin-not-acked-immediately", "a FIN arrived in order, no ACK in the same instant".to_string()));
                } else if rec.obs_before.as_ref().map(|o| h.seq == o.last_consumed_remote_seq_nr).unwrap_or(false) {
                    // (cannot happen in these states: a consumed FIN moves the connection on)
                    v.push(f("C07", "ack-timeliness", "ack/duplicate-fin-not-acked-immediately", "the peer's FIN arrived again, no ACK in the same instant".to_string()));
                } else {
                    v.push(f("C07", "ack-timeliness", "ack/out-of-order-fin-not-acked-immediately", "a FIN arrived ahead of a gap (data before it is missing), no ACK in the same instant: the sender gets no duplicate acknowledgement for it".to_string()));
                }
            }
        }
        // the peer retransmits its FIN (our ACK of it was lost): while we wait for the ACK of our own FIN the
        // duplicate is acknowledged in the same instant, like any duplicate
        let in_last_ack = rec.obs_before.as_ref().map(|o| o.state == "last-ack").unwrap_or(false) && rec.obs_after.as_ref().map(|o| o.state == "last-ack").unwrap_or(false);
        if in_last_ack && transport_ok && !deliver2 && w.done.is_none() && rec.emitted.is_empty() {
            for (h, _, _) in &rec.peer_sent {
                let dup = h.ptype == 1 && rec.obs_before.as_ref().map(|o| h.seq == o.last_consumed_remote_seq_nr).unwrap_or(false);
                // (a FIN that also acknowledges our FIN ends the connection instead)
                if dup {
                    v.push(f("C07", "ack-timeliness", "ack/duplicate-fin-not-acked-immediately", "the peer's FIN arrived again while our FIN is unacknowledged, no ACK in the same instant".to_string()));
                }
            }
        }
        // window re-opens from zero as a result of a read: also while only our own direction is closed
        // (the peer may still send), not once the peer's FIN was received
        let receiving = |s: &str| s == "established" || s == "fin-wait-1" || s == "fin-wait-2";
        let can_receive = rec.obs_after.as_ref().map(|o| receiving(o.state)).unwrap_or(false) && rec.obs_before.as_ref().map(|o| receiving(o.state)).unwrap_or(false);
        if can_receive && w.reader.is_some() && transport_ok && !deliver2 && !self.fin_from_peer_seen {
            if let (Some(Act::Read(_) | Act::ReadV(..)), Some(o)) = (act, &rec.obs_after) {
                let before_wnd = self.last_adv_wnd_before(rec);
                let free = w.cfg.rx_buf.saturating_sub(o.rx_queue_bytes + o.rx_ooq_bytes);
                if before_wnd == 0 && free >= o.mss as usize {
                    let reopened = rec.emitted.iter().any(|e| e.hdr.wnd > 0);
                    if !reopened {
                        v.push(f(
                            "C07",
                            "window-update",
                            "window/reopen-from-zero-not-announced-immediately",
                            format!("the last advertised window was 0; the read freed the buffer to {} bytes (>= segment size {}), yet no packet with a non-zero window was emitted in the same instant", free, o.mss),
                        ));
                    }
                }
            }
        }
        // deadlines that passed without an ACK
        if established && w.reader.is_some() {
            for (i, d) in &self.ack_due {
                if rec.t_us > *d {
                    v.push(f(
                        "C07",
                        "ack-timeliness",
                        "ack/delayed-ack-deadline-missed",
                        format!("peer packet {} was accepted in order and should be acknowledged by {} us; it is {} us and no ACK covers it", i, d, rec.t_us),
                    ));
                }
            }
            self.ack_due.retain(|(_, d)| rec.t_us <= *d);
        } else if !established {
            self.ack_due.clear();
            self.unacked_inorder_bytes = 0;
        }
        // stays silent: established, nothing to acknowledge, nothing to send
        if let (Some(Act::Spurious), Some(ob), Some(oa)) = (act, &rec.obs_before, &rec.obs_after) {
            let idle = ob.state == "established" && oa.state == "established" && ob.tx_ring_len == 0 && ob.flight_size == 0 && self.ack_due.is_empty() && !rec.d_woken_before && ob.inbound_queued == 0 && ob.rx_ooq_packets == 0;
            let wnd_consistent = self.last_adv_wnd > 0 || w.cfg.rx_buf.saturating_sub(ob.rx_queue_bytes + ob.rx_ooq_bytes) < ob.mss as usize;
            if idle && wnd_consistent && !rec.emitted.is_empty() && w.reader.is_some() {
                v.push(f(
                    "C07",
                    "silence",
                    "silence/idle-endpoint-emits-on-spurious-poll",
                    format!("established, nothing to acknowledge and nothing to send, yet a poll emitted {} datagram(s): first {} ack={} wnd={}", rec.emitted.len(), crate::duo::debug::type_name(rec.emitted[0].hdr.ptype), rec.emitted[0].hdr.ack, rec.emitted[0].hdr.wnd),
                ));
            }
        }
    }

    // ------------------------------------------------------------------------------------------
    // C06: retransmission timing discipline
    // ------------------------------------------------------------------------------------------
    fn rtx(&mut self, rec: &StepRecord, w: &World, act: Option<&Act>, v: &mut Vec<Finding>) {
        if self.desync {
            return; // sender and monitor no longer agree on what each sequence number carries (known finding F18)
        }
        let (Some(ob), oa) = (&rec.obs_before, &rec.obs_after) else { return };
        let clamp = |us: u64| us.clamp(200_000, 60_000_000);
        // unacknowledged data (or FIN) on the wire before this step
        let first_unacked = self.tx_order.iter().find(|s| !self.tx[*s].acked).copied();
        // a segment is never transmitted more often than 1 + max_retransmissions
        for (s, t) in &self.tx {
            if t.count > w.cfg.max_retx + 1 {
                v.push(f("C06", "retry-cap", "rtx/retransmitted-beyond-the-cap", format!("sequence number {} was transmitted {} times, max_retransmissions is {}", s, t.count, w.cfg.max_retx)));
            }
        }
        // ... and the connection gives up only after that many real transmissions of the segment it gives
        // up on (a datagram the transport refused is not a transmission)
        if let Some(Err(e)) = &rec.d_result {
            if e.contains("max number of retransmissions") {
                if let Some(fu) = first_unacked {
                    let t = &self.tx[&fu];
                    if t.count < w.cfg.max_retx + 1 && self.probe_seq != Some(fu) {
                        v.push(f(
                            "C06",
                            "retry-cap",
                            "rtx/gave-up-before-the-retry-cap",
                            format!("the connection failed with '{e}' although sequence number {} had been put on the wire only {} time(s); max_retransmissions = {} allows {} transmissions", fu, t.count, w.cfg.max_retx, w.cfg.max_retx + 1),
                        ));
                    }
                }
            }
        }
        // duplicate ACK bookkeeping from the packets the peer sent in this step
        let mut fast_due = false;
        for (h, plen, _) in &rec.peer_sent {
            if h.ptype != 2 || *plen > 0 {
                if h.ptype == 0 || h.ptype == 1 {
                    self.dup_acks = 0;
                    self.sack_dups = 0;
                }
                continue;
            }
            if h.sack.is_some() {
                self.peer_used_sack = true;
            }
            let outstanding_before = first_unacked.is_some();
            let same = self.last_peer_ack.map(|(a, wnd)| a == h.ack && wnd == h.wnd).unwrap_or(false);
            let in_range = w.ep_hi_seq.map(|hi| sdist(hi, h.ack) > 0).unwrap_or(false) && first_unacked.map(|fu| h.ack == fu.wrapping_sub(1)).unwrap_or(false);
            if outstanding_before && in_range {
                match &h.sack {
                    None => {
                        if !self.peer_used_sack && same {
                            self.dup_acks = self.dup_acks.saturating_add(1);
                            if self.dup_acks == 3 {
                                fast_due = true;
                            }
                        } else if !same {
                            self.dup_acks = 0;
                        }
                        self.sack_dups = 0;
                    }
                    Some((m, n)) => {
                        let bits: u32 = m[..(*n).min(8)].iter().map(|b| b.count_ones()).sum();
                        // only SACK blocks that name segments really sent count as evidence
                        let hi = w.ep_hi_seq.unwrap_or(h.ack);
                        let mut valid_bits = 0;
                        for i in 0..(*n * 8).min(64) {
                            if m[i / 8] & (1 << (i % 8)) != 0 && sdist(hi, h.ack.wrapping_add(2 + i as u16)) >= 0 {
                                valid_bits += 1;
                            }
                        }
                        let _ = bits;
                        if valid_bits >= 3 {
                            if self.sack_dups < 3 {
                                fast_due = true;
                            }
                            self.sack_dups = 3;
                        } else if valid_bits > 0 {
                            self.sack_dups = self.sack_dups.saturating_add(1);
                            if self.sack_dups == 3 {
                                fast_due = true;
                            }
                        }
                    }
                }
            } else {
                self.dup_acks = 0;
                self.sack_dups = 0;
            }
            self.last_peer_ack = Some((h.ack, h.wnd));
        }
        if matches!(act, Some(Act::Deliver2(..) | Act::Deliver3(..))) {
            fast_due = false; // aggregated processing of a burst: the per-packet rule is judged on single deliveries
        }
        if fast_due {
            // unless a timeout recovery is in progress (or a fast recovery is already running)
            // judged from the wire, not from the implementation's own phase: the peer's cumulative ACK had
            // not yet reached the highest sequence number outstanding when the last timeout fired
            let timeout_recovery = self.rto_recovery_until_before.is_some();
            let already_recovering = ob.recovery_phase == 1;
            if !timeout_recovery && !already_recovering && rec.rejected.is_empty() && w.done.is_none() {
                let fu = first_unacked.unwrap();
                let resent = rec.emitted.iter().any(|e| e.hdr.ptype == 0 && e.hdr.seq == fu);
                if !resent && rec.clock_advanced_us == 0 {
                    v.push(f(
                        "C06",
                        "fast-retransmit",
                        "rtx/no-fast-retransmit-on-third-duplicate",
                        format!("the third duplicate ACK / SACK evidence for ack_nr {} arrived, but sequence number {} was not retransmitted in the same instant", fu.wrapping_sub(1), fu),
                    ));
                }
            }
        }
        // the retransmission timer: armed whenever something sent is unacknowledged
        if let Some(oa) = oa {
            let data_outstanding = self.tx.values().any(|t| !t.acked);
            let fin_outstanding = self.fin_seq.is_some() && !self.fin_acked_by_peer && !self.reset_seen;
            let alive = w.done.is_none();
            let closing_by_timer = oa.state != "established"; // teardown is bounded by the final-chance / inactivity timer instead
            if alive && (data_outstanding || (fin_outstanding && !closing_by_timer)) && oa.timers[0].is_none() && rec.rejected.is_empty() && !matches!(act, Some(Act::TransportPendingOnce)) {
                let probe_pending = self.tx.values().any(|t| !t.acked && t.len > self.proven());
                v.push(f(
                    "C06",
                    "rto-timer",
                    if probe_pending { "rtx/timer-off-with-unacked-data-behind-probe" } else { "rtx/timer-off-with-unacked-data" },
                    format!("unacknowledged data is on the wire (first unacked sequence number {:?}) but the retransmission timer is not armed", first_unacked),
                ));
            }
            // a timer-driven step at the retransmission deadline
            // (the runtime's timer wheel has millisecond granularity: the wake-up may come up to 1 ms late)
            let due_now = ob.timers[0].map(|d| { let t = d.as_micros() as u64; rec.clock_advanced_us >= t && rec.clock_advanced_us < t + 1_000 }).unwrap_or(false) && matches!(act, Some(Act::Tick) | Some(Act::Wait(_))) && rec.clock_advanced_us > 0;
            if due_now && rec.peer_sent.is_empty() && w.done.is_none() {
                if let Some(ps) = self.probe_seq_before {
                    if let Some(t) = self.tx.get(&ps) {
                        // the library discards a probe whose retransmissions are used up when the timer fires
                        let same_again = rec.emitted.iter().any(|e| e.hdr.ptype == 0 && e.hdr.seq == ps);
                        if !t.acked && t.count.saturating_sub(1) >= w.cfg.probe_retx && !same_again && t.last_t < rec.t_us {
                            self.popped_probe = Some(ps);
                        }
                    }
                }
            }
            if due_now && rec.peer_sent.is_empty() && w.done.is_none() && rec.rejected.is_empty() {
                if let Some(fu) = first_unacked {
                    let seg = &self.tx[&fu];
                    let _ = seg;
                    let is_probe = self.probe_seq_before == Some(fu);
                    let resent = rec.emitted.iter().any(|e| e.hdr.ptype == 0 && e.hdr.seq == fu);
                    if !resent && !is_probe {
                        let behind_probe = self.tx.values().any(|t| !t.acked && t.len > self.proven());
                        v.push(f(
                            "C06",
                            "rto-timer",
                            if behind_probe { "rtx/timeout-did-not-retransmit-segment-behind-probe" } else { "rtx/timeout-did-not-retransmit-first-unacked" },
                            format!("the retransmission timeout expired at {} us but the first unacknowledged sequence number {} was not put on the wire again", rec.t_us, fu),
                        ));
                    }
                    if resent {
                        // a timeout-driven retransmission (probe or not) starts a timeout recovery
                        self.rto_recovery_until = w.ep_hi_seq;
                    }
                    if resent && !is_probe {
                        // back-off: doubled (within 200 ms .. 60 s) unless new data was acknowledged in between
                        let want_ns = (ob.rto.as_nanos() as u64 * 2).clamp(200_000_000, 60_000_000_000);
                        let got_ns = oa.rto.as_nanos() as u64;
                        let want = want_ns / 1000;
                        let got = got_ns / 1000;
                        if got_ns != want_ns {
                            v.push(f("C06", "backoff", "rtx/rto-not-doubled-after-timeout", format!("RTO was {} us when the timer fired; after the timeout it is {} us, expected {} us", ob.rto.as_micros(), got, want)));
                        }
                        if oa.timers[0].map(|d| d.as_micros() as u64) != Some(got) {
                            v.push(f("C06", "backoff", "rtx/timer-not-restarted-with-backed-off-rto", format!("after the timeout the retransmission timer shows {:?}, the backed-off RTO is {} us", oa.timers[0], got)));
                        }
                        self.rto_recovery_until = w.ep_hi_seq;
                        // each timeout allows exactly one segment until new data is acknowledged
                        let sent_now = rec.emitted.iter().filter(|e| e.hdr.ptype == 0).count();
                        self.after_rto = Some(sent_now);
                    }
                }
            }
            // the same for our FIN once it is the only thing outstanding - whoever closed first
            if due_now && rec.peer_sent.is_empty() && w.done.is_none() && rec.rejected.is_empty() && first_unacked.is_none() {
                if let Some(fs) = self.fin_seq {
                    let closing = matches!(ob.state, "fin-wait-1" | "last-ack");
                    if closing && !self.fin_acked_by_peer && !self.reset_seen && !rec.emitted.iter().any(|e| e.hdr.ptype == 1 && e.hdr.seq == fs) {
                        v.push(f(
                            "C06",
                            "rto-timer",
                            "rtx/fin-not-retransmitted-at-timeout",
                            format!("the retransmission timeout expired at {} us in state {} with our ST_FIN (seq {}) unacknowledged, and it was not put on the wire again", rec.t_us, ob.state, fs),
                        ));
                        v.push(f(
                            "C17",
                            "teardown",
                            "fin/not-retransmitted-at-timeout",
                            format!("the retransmission timeout expired at {} us in state {} with our ST_FIN (seq {}) unacknowledged, and it was not put on the wire again", rec.t_us, ob.state, fs),
                        ));
                    }
                }
            }
            if let Some(n) = self.after_rto {
                if n > 1 {
                    v.push(f(
                        "C05",
                        "rto-single-segment",
                        "window/more-than-one-segment-after-rto",
                        format!("after a retransmission timeout {} segments were sent before any new data was acknowledged", n),
                    ));
                }
            }
            // a retransmission that nothing justifies: no timer expiry, no duplicate-ACK / SACK evidence, no recovery
            for e in rec.emitted.iter().filter(|e| e.hdr.ptype == 0) {
                if let Some(t) = self.tx.get(&e.hdr.seq) {
                    if t.count > 1 && t.last_t == e.t_us {
                        let timer_step = due_now;
                        let evidence = self.dup_acks >= 3 || self.sack_dups >= 1 || ob.recovery_phase != 0 || oa.recovery_phase != 0 || ob.rto_retransmissions > 0 || self.peer_used_sack;
                        let after_probe = !rec.rejected.is_empty() || ob.max_ss != oa.max_ss;
                        let rewound = self.loss_seen && self.episode.is_some();
                        if !timer_step && !evidence && !after_probe && !rewound && !matches!(act, Some(Act::Deliver2(..) | Act::Deliver3(..))) {
                            v.push(f(
                                "C06",
                                "rto-timer",
                                "rtx/retransmitted-before-timeout-without-evidence",
                                format!("sequence number {} was retransmitted at {} us: no timeout had expired and no duplicate-ACK/SACK evidence had arrived", e.hdr.seq, e.t_us),
                            ));
                        }
                    }
                }
            }
        }
    }

    // ------------------------------------------------------------------------------------------
    // C17: handshake and teardown on the wire
    // ------------------------------------------------------------------------------------------
    fn fsm(&mut self, rec: &StepRecord, w: &World, act: Option<&Act>, v: &mut Vec<Finding>) {
        let state_after = rec.obs_after.as_ref().map(|o| o.state).unwrap_or("gone");
        let state_before = rec.obs_before.as_ref().map(|o| o.state).unwrap_or("gone");
        // R1: the accepted connection's SYN-ACK
        let pre = |st: &str| st == "syn-received" || st == "syn-ack-sent";
        if w.cfg.incoming && pre(state_before) {
            // timer-driven (or spawn) steps: these are the SYN-ACK and its repeats
            let timer_step = act.is_none() || matches!(act, Some(Act::Tick) | Some(Act::Wait(_)));
            for e in &rec.emitted {
                let synack_shaped = e.hdr.ptype == 2 && e.hdr.ack == w.cfg.peer_isn && e.hdr.seq == w.cfg.our_isn;
                let dying = state_after == "gone" && (e.hdr.ptype == 1);
                if !synack_shaped && !dying && !self.established_seen && rec.peer_sent.is_empty() && timer_step && !w.shutdown_called && w.reader.is_some() && w.writer.is_some() && self.fin_seq.is_none() {
                    v.push(f(
                        "C17",
                        "handshake",
                        "synack/emission-before-handshake-is-not-the-syn-ack",
                        format!("before the initiator's first packet arrived the accepted connection emitted {} seq={} ack={} (expected ST_STATE seq={} acknowledging the SYN's sequence number {})", crate::duo::debug::type_name(e.hdr.ptype), e.hdr.seq, e.hdr.ack, w.cfg.our_isn, w.cfg.peer_isn),
                    ));
                }
                if synack_shaped && timer_step && rec.peer_sent.is_empty() && self.initiator_pkt_seen {
                    v.push(f("C17", "handshake", "synack/repeated-after-initiator-packet", format!("SYN-ACK repeated at {} us although a packet acknowledging it had arrived", e.t_us)));
                }
                if synack_shaped && timer_step && rec.peer_sent.is_empty() {
                    if let Some(last) = self.synack_times.last() {
                        if e.t_us != *last + 200_000 {
                            v.push(f("C17", "handshake", "synack/not-on-the-200ms-timer", format!("SYN-ACK repeated at {} us, previous one at {} us", e.t_us, last)));
                        }
                    }
                    self.synack_times.push(e.t_us);
                    if self.synack_times.len() > w.cfg.max_retx {
                        v.push(f("C17", "handshake", "synack/repeated-beyond-the-cap", format!("SYN-ACK sent {} times, configured maximum {}", self.synack_times.len(), w.cfg.max_retx)));
                    }
                }
            }
            // the cap: once max SYN-ACKs are out, the next expiry of the timer must fail the connection
            if timer_step && act.is_some() && self.synack_times.len() >= w.cfg.max_retx && rec.emitted.is_empty() && pre(state_after) && rec.clock_advanced_us >= 200_000 {
                v.push(f("C17", "handshake", "synack/connection-does-not-fail-after-the-cap", format!("{} SYN-ACKs are out and the resend timer expired again, but the connection neither repeated it nor failed", self.synack_times.len())));
            }
        }
        for (h, _, _) in &rec.peer_sent {
            if w.cfg.incoming && (h.ptype == 0 || h.ptype == 2) && h.ack == w.cfg.our_isn.wrapping_sub(1) {
                self.initiator_pkt_seen = true;
            }
        }
        if w.cfg.incoming && !pre(state_after) && !rec.peer_sent.is_empty() {
            self.established_seen = true;
        }
        if w.cfg.incoming && state_after == "established" {
            self.established_seen = true;
        }
        if rec.emitted.iter().any(|e| e.hdr.ptype == 0) {
            self.first_data_ever = true;
        }
        // R2: our own FIN
        for e in rec.emitted.iter().filter(|e| e.hdr.ptype == 1) {
            let expected = match self.tx_order.last() {
                Some(s) => s.wrapping_add(1),
                None => {
                    // no data was ever sent: the FIN takes the first data sequence number
                    if w.cfg.incoming { w.cfg.our_isn } else { w.cfg.our_isn.wrapping_add(1) }
                }
            };
            let own_initiative = !self.fin_from_peer_seen && !self.reset_seen;
            let died_with_error = matches!(rec.d_result, Some(Err(_)));
            if e.hdr.seq != expected && !died_with_error {
                v.push(f("C17", "teardown", "fin/wrong-sequence-number", format!("ST_FIN carries sequence number {}, the last data segment was {:?} (expected {})", e.hdr.seq, self.tx_order.last(), expected)));
            }
            if own_initiative && !died_with_error {
                let transmitted: u64 = self.tx.values().map(|t| t.len as u64).sum();
                if transmitted < w.written {
                    v.push(f(
                        "C17",
                        "teardown",
                        "fin/sent-before-all-accepted-data",
                        format!("ST_FIN (own initiative) at {} us while only {} of the {} bytes accepted by write have ever been transmitted", e.t_us, transmitted, w.written),
                    ));
                    // the same fact seen from C03: the peer will read a prefix and then a clean end-of-stream
                    v.push(f(
                        "C03",
                        "truncation",
                        "truncation/fin-sent-before-accepted-data-was-transmitted",
                        format!("ST_FIN at {} us while only {} of the {} bytes accepted by write have ever been transmitted: the peer's reader gets a shorter stream and a clean end-of-stream, nobody an error", e.t_us, transmitted, w.written),
                    ));
                }
            }
            if let Some(fs) = self.fin_seq {
                if e.hdr.seq != fs {
                    v.push(f("C17", "teardown", "fin/renumbered", format!("ST_FIN first carried sequence number {}, now {}", fs, e.hdr.seq)));
                }
            }
        }
        // R2b: our FIN is repeated on timeout (or as the tail of a loss recovery that retransmits the data
        // in front of it), not by whatever else makes the connection run
        {
            let fins_now = rec.emitted.iter().filter(|e| e.hdr.ptype == 1).count();
            let fins_before = self.fin_times.len() - fins_now.min(self.fin_times.len());
            let rto_now = rec.obs_before.as_ref().map(|o| o.timers[0].map(|d| d.as_micros() as u64 <= rec.clock_advanced_us).unwrap_or(false)).unwrap_or(false);
            let rto_counted = match (&rec.obs_before, &rec.obs_after) {
                (Some(b), Some(a)) => a.rto_retransmissions > b.rto_retransmissions,
                _ => false,
            };
            let transport_trouble = !rec.rejected.is_empty() || w.tr.lock().pending_once || w.tr.lock().pending_hold_steps > 0 || matches!(act, Some(Act::TransportPendingOnce | Act::TransportPendingHold));
            if rto_now || rto_counted || transport_trouble {
                self.fin_rtx_credit = true;
            }
            let data_rtx_now = rec.emitted.iter().any(|e| e.hdr.ptype == 0 && self.tx.get(&e.hdr.seq).map(|t| t.count > 1).unwrap_or(false));
            // a loss recovery that retransmits data re-sends the FIN behind it once - in the same step if the
            // FIN was already out, otherwise at the first opportunity after the FIN's first transmission
            if data_rtx_now {
                self.fin_tail_credit = true;
            }
            if fins_now > 0 {
                let repeats = if fins_before == 0 { fins_now - 1 } else { fins_now };
                let dying = state_after == "gone";
                let tail = repeats > 0 && self.fin_tail_credit;
                if tail {
                    self.fin_tail_credit = false;
                }
                if repeats > 0 && !self.fin_rtx_credit && !tail && !dying && !self.hostile_ack_seen && !self.desync {
                    v.push(f(
                        "C17",
                        "teardown",
                        "fin/repeated-without-timeout",
                        format!("ST_FIN (seq {:?}) was put on the wire again ({} time(s) so far) in a step without a retransmission timeout, without a retransmission of the data in front of it and without transport trouble (action {:?}, state before {})", self.fin_seq, self.fin_times.len(), act, state_before),
                    ));
                }
                if repeats > 1 && !transport_trouble {
                    v.push(f("C17", "teardown", "fin/repeated-without-timeout", format!("{} ST_FINs in one step", fins_now)));
                }
                self.fin_rtx_credit = false;
            }
        }
        // R3: the peer's in-sequence FIN is acknowledged at once and answered by our own FIN
        // two datagrams in one poll: a FIN that is next in sequence when the step starts must be acknowledged
        // whatever is queued behind (or in front of) it, unless the other packet is a RESET
        if matches!(act, Some(Act::Deliver2(..) | Act::Deliver3(..))) && !rec.peer_sent.iter().any(|(h, _, _)| h.ptype == 3) {
            if let Some(ob) = &rec.obs_before {
                let receiving = state_before == "established" || state_before == "fin-wait-1" || state_before == "fin-wait-2";
                let bug_death = matches!(&rec.d_result, Some(Err(e)) if e.to_lowercase().starts_with("bug"));
                let judged = w.done.is_none() || matches!(rec.d_result, Some(Ok(()))) || bug_death;
                if let Some((h, _, _)) = rec.peer_sent.iter().find(|(h, _, _)| h.ptype == 1 && h.seq == ob.last_consumed_remote_seq_nr.wrapping_add(1)) {
                    let acked = rec.emitted.iter().any(|e| e.hdr.ack == h.seq);
                    // by design: in fin-wait-1 an ST_STATE that acknowledges our FIN and carries the peer's next
                    // sequence number is itself taken as the peer's FIN (some clients close that way)
                    let state_taken_as_fin = state_before == "fin-wait-1"
                        && rec.peer_sent.first().map(|(f, _, _)| f.ptype == 2 && f.seq == ob.last_consumed_remote_seq_nr.wrapping_add(1) && Some(f.ack) == self.fin_seq).unwrap_or(false);
                    if receiving && judged && !acked && rec.rejected.is_empty() && !self.hostile_ack_seen && !state_taken_as_fin {
                        v.push(f(
                            "C17",
                            "teardown",
                            "fin/peer-fin-not-acknowledged",
                            format!("the peer's in-sequence ST_FIN (seq {}) arrived together with another datagram in state {} and was not acknowledged (connection result {:?})", h.seq, state_before, rec.d_result),
                        ));
                    }
                }
            }
        }
        for (h, _, _) in &rec.peer_sent {
            if h.ptype == 1 && !matches!(act, Some(Act::Deliver2(..) | Act::Deliver3(..))) {
                // in sequence for the harness AND for the endpoint (a peer that ignores the window may have had
                // a packet refused: the FIN is then ahead of a gap as far as the endpoint is concerned)
                let in_seq = matches!(w.peer_fin_idx, Some(fi) if fi == w.peer_in_order())
                    && rec.obs_before.as_ref().map(|o| h.seq == o.last_consumed_remote_seq_nr.wrapping_add(1)).unwrap_or(true);
                let ahead = matches!(w.peer_fin_idx, Some(fi) if fi > w.peer_in_order());
                if ahead && state_before != "gone" {
                    // a FIN ahead of missing data must not take effect
                    let acked = rec.emitted.iter().any(|e| sdist(e.hdr.ack, h.seq) >= 0);
                    let closed_ok = matches!(rec.d_result, Some(Ok(())));
                    let eof = rec.app.iter().any(|(who, r)| *who == "read" && matches!(r, AppRes::Eof));
                    if acked || closed_ok || eof {
                        v.push(f(
                            "C17",
                            "teardown",
                            "fin/out-of-sequence-fin-honoured",
                            format!("the peer's ST_FIN (seq {}) arrived ahead of missing data in state {}; it was {}", h.seq, state_before, if acked { "acknowledged" } else if closed_ok { "taken as the end of the connection" } else { "delivered to the reader as end-of-stream" }),
                        ));
                        // from C03: the peer's writer is told that everything up to its FIN arrived (its flush /
                        // shutdown succeeds) while the reader here can never get the missing bytes
                        v.push(f(
                            "C03",
                            "completion",
                            "completion/fin-ahead-of-missing-data-honoured",
                            format!("the peer's ST_FIN (seq {}) arrived ahead of missing data in state {} and was {}: the peer's shutdown succeeds, the missing bytes never reach the reader", h.seq, state_before, if acked { "acknowledged" } else if closed_ok { "taken as the end of the connection" } else { "delivered to the reader as end-of-stream" }),
                        ));
                    }
                }
                let receiving = state_before == "established" || state_before == "fin-wait-1" || state_before == "fin-wait-2";
                if in_seq && receiving && w.done.is_none() || (in_seq && receiving && matches!(rec.d_result, Some(Ok(())))) {
                    let acked = rec.emitted.iter().any(|e| e.hdr.ack == h.seq);
                    if !acked && rec.rejected.is_empty() {
                        v.push(f("C17", "teardown", "fin/peer-fin-not-acknowledged", format!("the peer's in-sequence ST_FIN (seq {}) was not acknowledged in the same instant (state before: {})", h.seq, state_before)));
                    }
                    let transmitted: u64 = self.tx.values().map(|t| t.len as u64).sum();
                    let our_fin_out = self.fin_seq.is_some();
                    // (during a loss episode the FIN queues behind the retransmissions: not demanded in the same instant)
                    let in_loss = self.episode.is_some() || rec.obs_before.as_ref().map(|o| o.rto_retransmissions > 0 || o.recovery_phase != 0).unwrap_or(false);
                    if !our_fin_out && transmitted == w.written && rec.rejected.is_empty() && !in_loss {
                        v.push(f("C17", "teardown", "fin/peer-fin-not-answered-with-own-fin", format!("the peer's in-sequence ST_FIN arrived in state {}; everything written had been transmitted, yet no ST_FIN of our own was emitted", state_before)));
                    }
                }
            }
        }
        // R4: RESET: nothing further is emitted, and the halves see an error unless the close handshake was answered
        if self.reset_seen {
            let this_step_reset = rec.peer_sent.iter().any(|(h, _, _)| h.ptype == 3);
            if !rec.emitted.is_empty() {
                let after: Vec<&Emit> = rec.emitted.iter().collect();
                // packets emitted in the same step BEFORE the reset was processed cannot be told apart here
                // unless the reset was the only packet of the step
                if rec.peer_sent.len() == 1 || !this_step_reset {
                    v.push(f(
                        "C17",
                        "reset",
                        "reset/reply-emitted-after-reset",
                        format!("after ST_RESET the endpoint emitted {} ({} datagram(s))", crate::duo::debug::type_name(after[0].hdr.ptype), after.len()),
                    ));
                }
            }
            if this_step_reset && w.done.is_none() && state_before != "gone" {
                v.push(f("C17", "reset", "reset/connection-survives-reset", "the connection future did not complete in the step that processed ST_RESET".to_string()));
            }
        }
    }

    // ------------------------------------------------------------------------------------------
    // C18 Nagle, C19 send buffer / back-pressure
    // ------------------------------------------------------------------------------------------
    fn nagle_and_buffers(&mut self, rec: &StepRecord, w: &World, act: Option<&Act>, v: &mut Vec<Finding>) {
        if self.desync {
            return;
        }
        let Some(oa) = &rec.obs_after else { return };
        let Some(ob) = &rec.obs_before else { return };
        // the ring holds exactly the last bytes accepted by write, in order (growing it must not lose,
        // duplicate or reorder anything; bytes leave it only from the front, when acknowledged)
        if let Some(wh) = &w.writer {
            let ring = wh.verif_ring_contents();
            let start = w.written.saturating_sub(ring.len() as u64);
            if ring.len() as u64 > w.written || ring.iter().enumerate().any(|(i, b)| *b != coded(start + i as u64, SALT_EP)) {
                v.push(f(
                    "C01",
                    "tx-buffer-content",
                    "txbuf/ring-content-differs-from-accepted-bytes",
                    format!("the TX ring holds {} bytes that are not the last bytes accepted by write ({} accepted in total): what will be sent is not what was written", ring.len(), w.written),
                ));
                v.push(f(
                    "C19",
                    "tx-buffer-content",
                    "txbuf/ring-content-differs-from-accepted-bytes",
                    format!("the TX ring holds {} bytes that are not the last {} bytes accepted by write ({} accepted in total): bytes were lost, duplicated or reordered", ring.len(), ring.len(), w.written),
                ));
            }
        }
        let limit = w.cfg.tx_init.max(w.cfg.tx_max) as u64;
        // acknowledged = cumulatively or selectively (the library releases a selectively acknowledged
        // segment from the ring as soon as everything before it is acknowledged too)
        let acked = self.cum_acked_bytes.max(self.bytes_acked);
        if w.written.saturating_sub(acked) > limit {
            v.push(f(
                "C19",
                "tx-buffer-bound",
                "txbuf/accepted-minus-acked-exceeds-limit",
                format!("write accepted {} bytes, the peer has acknowledged {} (cumulatively {}): {} unacknowledged > limit {}", w.written, acked, self.cum_acked_bytes, w.written - acked, limit),
            ));
        }
        // uTP segments once: note where a segmentation pass ended because the peer window was used up
        {
            let end = (w.written + oa.tx_segmented_bytes as u64).saturating_sub(oa.tx_ring_len as u64);
            if end > self.seg_end_abs {
                let newly = end - self.seg_end_abs;
                if newly == self.peer_last_wnd as u64 {
                    self.window_limited_cuts.push(end);
                }
                self.seg_end_abs = end;
            }
        }
        // first transmissions of this step, in order
        let mss = ob.mss as usize;
        for e in rec.emitted.iter().filter(|e| e.hdr.ptype == 0) {
            let Some(t) = self.tx.get(&e.hdr.seq) else { continue };
            if t.count != 1 || t.first_t != e.t_us {
                continue;
            }
            if w.cfg.nagle {
                // earlier data unacknowledged at the time of sending? (acks are processed before sends within a step)
                let earlier_unacked = self.tx.iter().any(|(s, x)| sdist(e.hdr.seq, *s) > 0 && !x.acked);
                // what it could have used: min(segment size, what the peer window left)
                let outstanding_before: usize = self.tx.iter().filter(|(s, x)| sdist(e.hdr.seq, **s) > 0 && !x.acked).map(|(_, x)| x.len).sum();
                let window_left = (self.peer_last_wnd as usize).saturating_sub(outstanding_before);
                let could = mss.min(window_left);
                let by_rto_timer = matches!(act, Some(Act::Tick) | Some(Act::Wait(_))) && ob.flight_size == 0;
                let cut_by_window = self.window_limited_cuts.contains(&(t.off + t.len as u64));
                if earlier_unacked && e.payload.len() < could && !by_rto_timer && self.fin_seq.is_none() && !cut_by_window {
                    // a partial segment is legitimate if it is the last one cut before the writer added more? No:
                    // Nagle holds a partial segment back while anything is unacknowledged.
                    v.push(f(
                        "C18",
                        "nagle",
                        "nagle/partial-segment-while-data-unacknowledged",
                        format!("Nagle on: sequence number {} carries {} bytes (it could have used {}) while earlier data is still unacknowledged", e.hdr.seq, e.payload.len(), could),
                    ));
                }
            }
        }
        // buffered bytes are sent when the pipe drains / (Nagle off) whenever the connection processes an event
        let transmitted: u64 = self.tx.values().map(|t| t.len as u64).sum();
        let unsent = w.written.saturating_sub(transmitted);
        let sending_state = oa.state == "established" && ob.state == "established";
        if unsent > 0 && rec.d_polls > 0 && sending_state && w.done.is_none() && rec.rejected.is_empty() && !self.fin_from_peer_seen && !matches!(act, Some(Act::TransportPendingOnce)) && oa.rto_retransmissions == 0 && oa.recovery_phase == 0 && !matches!(act, Some(Act::Deliver2(..) | Act::Deliver3(..))) {
            let outstanding: usize = self.tx.values().filter(|t| !t.acked).map(|t| t.len).sum();
            // (while the path search is still running the next segment may be cut as a probe of up to the
            // current ceiling: room for that much is demanded before calling the sender idle)
            let next_cap = if oa.max_ss > oa.mss { oa.max_ss as usize } else { oa.mss as usize };
            let next = next_cap.min(unsent as usize);
            let allowed = (oa.cwnd.min(self.peer_last_wnd as usize)).saturating_sub(outstanding);
            let probe_outstanding = self.tx.values().any(|t| !t.acked && t.len > self.proven());
            if !w.cfg.nagle {
                // the data must have been in the ring when the connection ran: a write in this step that did
                // not wake the connection is judged by the idle-write rule instead
                let written_this_step: u64 = rec.app.iter().filter_map(|(who, r)| if *who == "write" { if let AppRes::Ok(n) = r { Some(*n as u64) } else { None } } else { None }).sum();
                let unsent_before_step = unsent.saturating_sub(written_this_step);
                if allowed >= next && unsent_before_step > 0 && !probe_outstanding {
                    v.push(f(
                        "C18",
                        "nagle-off",
                        "nagle-off/buffered-bytes-held-back",
                        format!("Nagle off: after the connection processed an event {} accepted bytes are still unsent although window ({}) and congestion window ({}) leave room for {} more bytes ({} outstanding)", unsent, self.peer_last_wnd, oa.cwnd, allowed, outstanding),
                    ));
                }
            } else if outstanding == 0 && self.peer_last_wnd as usize >= next && oa.cwnd >= next && !probe_outstanding {
                let written_this_step: u64 = rec.app.iter().filter_map(|(who, r)| if *who == "write" { if let AppRes::Ok(n) = r { Some(*n as u64) } else { None } } else { None }).sum();
                if unsent.saturating_sub(written_this_step) > 0 {
                    v.push(f(
                        "C18",
                        "nagle",
                        "nagle/pipe-drained-but-buffered-bytes-not-sent",
                        format!("Nagle on: everything is acknowledged, {} buffered bytes remain unsent after the connection ran (window {}, cwnd {})", unsent, self.peer_last_wnd, oa.cwnd),
                    ));
                }
            }
        }
    }

    // ------------------------------------------------------------------------------------------
    // C02 (wake-ups, no stall), C19 (writer woken when space is freed)
    // ------------------------------------------------------------------------------------------
    fn wakeups(&mut self, rec: &StepRecord, w: &World, act: Option<&Act>, v: &mut Vec<Finding>) {
        let (Some(ob), Some(oa)) = (&rec.obs_before, &rec.obs_after) else {
            // the connection is gone: nobody may stay parked on it
            if w.done.is_some() {
                if w.w_parked != Parked::No && w.writer.is_some() {
                    v.push(f("C02", "wake-ups", "wake/writer-parked-on-dead-connection", format!("the connection ended ({:?}) but the writer is still parked in {:?} and its waker never fired", w.done, w.w_parked)));
                }
                if w.r_parked != Parked::No && w.reader.is_some() {
                    v.push(f("C02", "wake-ups", "wake/reader-parked-on-dead-connection", format!("the connection ended ({:?}) but the reader is still parked and its waker never fired", w.done)));
                }
            }
            return;
        };
        // a parked operation is registered with the waker of the task that polled it last (the
        // contract of Future::poll): an earlier task's waker would wake nobody who is waiting
        let (ww, rw) = w.waker_targets();
        if w.w_parked != Parked::No && w.writer.is_some() && ww == 2 {
            v.push(f(
                if matches!(w.w_parked, Parked::Write(_)) { "C19" } else { "C02" },
                "wake-ups",
                "wake/writer-registered-with-stale-waker",
                format!("{:?} is pending; the waker the library holds for it belongs to a task that polled earlier, not to the one that polled last", w.w_parked),
            ));
        }
        if w.r_parked != Parked::No && w.reader.is_some() && rw == 2 {
            v.push(f("C02", "wake-ups", "wake/reader-registered-with-stale-waker", "poll_read is pending; the waker the library holds for it belongs to a task that polled earlier, not to the one that polled last".to_string()));
        }
        // a parked writer with free ring space / a parked reader with queued data, at quiescence
        if let Parked::Write(_) = w.w_parked {
            if oa.tx_ring_len < oa.tx_ring_cap && w.writer.is_some() {
                v.push(f(
                    "C19",
                    "back-pressure",
                    "wake/writer-not-woken-when-space-freed",
                    format!("the writer is parked in poll_write although the TX ring has {} of {} bytes free and nothing woke it", oa.tx_ring_cap - oa.tx_ring_len, oa.tx_ring_cap),
                ));
            }
        }
        if let Parked::Read(_) = w.r_parked {
            if oa.rx_queue_bytes > 0 && w.reader.is_some() {
                v.push(f("C02", "wake-ups", "wake/reader-not-woken-with-data-queued", format!("the reader is parked in poll_read although {} bytes are queued for it", oa.rx_queue_bytes)));
            }
            // ... or with the end of the stream: the peer's FIN arrived in sequence (for a peer that kept to
            // the window), everything before it has been read, nothing is parked in the reassembly queue
            if let Some(fi) = w.peer_fin_idx {
                if self.fin_in_order_seen && w.cfg.peer_respects_window && w.read == w.peer_off_of(fi) && oa.rx_queue_bytes == 0 && oa.rx_ooq_packets <= 1 && w.reader.is_some() && rec.d_polls > 0 && rec.rejected.is_empty() {
                    v.push(f(
                        "C02",
                        "wake-ups",
                        "wake/reader-not-woken-at-end-of-stream",
                        format!("the peer's FIN has arrived in sequence and all {} bytes before it have been read, but the reader parked in poll_read was not woken: it learns of the end of the stream only when the connection ends", w.read),
                    ));
                }
            }
        }
        if matches!(w.w_parked, Parked::Flush | Parked::Shutdown) && oa.tx_ring_len == 0 && w.w_parked == Parked::Flush {
            v.push(f("C02", "wake-ups", "wake/flush-not-woken-when-ring-empty", "poll_flush is parked although the TX ring is empty".to_string()));
        }
        // immediacy on an idle connection
        let idle_before = ob.state == "established" && ob.tx_ring_len == 0 && ob.flight_size == 0 && ob.tx_segments == 0 && !self.fin_from_peer_seen && ob.rto_retransmissions == 0;
        if idle_before && rec.rejected.is_empty() {
            match act {
                Some(Act::Write(n)) if *n > 0 => {
                    let accepted = rec.app.iter().any(|(who, r)| *who == "write" && matches!(r, AppRes::Ok(k) if *k > 0));
                    let window_open = self.peer_last_wnd as usize >= (*n).min(ob.mss as usize) && ob.cwnd >= (*n).min(ob.mss as usize);
                    if accepted && window_open && !rec.emitted.iter().any(|e| e.hdr.ptype == 0) {
                        v.push(f(
                            "C02",
                            "promptness",
                            "promptness/write-on-idle-connection-not-transmitted-at-once",
                            format!("write of {} bytes on an idle connection (peer window {}, cwnd {}): no ST_DATA in the same instant (connection polled {} time(s))", n, self.peer_last_wnd, ob.cwnd, rec.d_polls),
                        ));
                    }
                }
                Some(Act::Shutdown) => {
                    if !rec.emitted.iter().any(|e| e.hdr.ptype == 1) && w.done.is_none() {
                        v.push(f(
                            "C02",
                            "promptness",
                            "promptness/shutdown-on-idle-connection-fin-not-sent-at-once",
                            format!("shutdown on an idle connection: no ST_FIN in the same instant (connection polled {} time(s))", rec.d_polls),
                        ));
                    }
                }
                Some(Act::DropWriter) | Some(Act::DropReader) => {
                    if w.reader.is_none() && w.writer.is_none() && !rec.emitted.iter().any(|e| e.hdr.ptype == 1) && w.done.is_none() {
                        v.push(f(
                            "C02",
                            "promptness",
                            "promptness/drop-of-both-halves-fin-not-sent-at-once",
                            format!("both halves dropped on an idle connection: no ST_FIN in the same instant (connection polled {} time(s))", rec.d_polls),
                        ));
                    }
                }
                _ => {}
            }
        }
        if self.desync {
            // sender and monitor no longer agree on what has been transmitted (known finding F18)
            return;
        }
        // deadlock: accepted bytes neither sent nor acknowledged, windows open, nothing in flight and no timer armed
        let transmitted: u64 = self.tx.values().map(|t| t.len as u64).sum();
        let unsent = w.written.saturating_sub(transmitted);
        if unsent > 0 && oa.state == "established" && w.done.is_none() && !self.fin_from_peer_seen && !w.d.is_set() {
            let outstanding: usize = self.tx.values().filter(|t| !t.acked).map(|t| t.len).sum();
            let next = (oa.mss as usize).min(unsent as usize);
            let timers_off = oa.timers[0].is_none() && oa.timers[2].is_none() && oa.timers[3].is_none();
            if outstanding == 0 && timers_off && self.peer_last_wnd as usize >= next && oa.cwnd >= next && rec.rejected.is_empty() && !matches!(act, Some(Act::TransportPendingOnce)) {
                v.push(f(
                    "C02",
                    "stall",
                    "stall/unsent-bytes-nothing-in-flight-no-timer",
                    format!("{} accepted bytes are unsent, nothing is in flight, the peer window ({}) and cwnd ({}) allow a segment, no timer is armed and nothing woke the connection: only an incidental poll can move this", unsent, self.peer_last_wnd, oa.cwnd),
                ));
            }
        }
        // the peer could send, but was told a zero window while the buffer has room for a segment, and nothing is armed
        let receiving = oa.state == "established" || oa.state == "fin-wait-1" || oa.state == "fin-wait-2";
        if receiving && !self.fin_from_peer_seen && w.done.is_none() && w.reader.is_some() && !w.d.is_set() {
            let free = w.cfg.rx_buf.saturating_sub(oa.rx_queue_bytes + oa.rx_ooq_bytes);
            if self.last_adv_wnd == 0 && free >= oa.mss as usize && oa.timers[2].is_none() && rec.rejected.is_empty() && !matches!(act, Some(Act::TransportPendingOnce)) && !matches!(act, Some(Act::Deliver2(..) | Act::Deliver3(..))) {
                v.push(f(
                    "C02",
                    "stall",
                    "stall/zero-window-advertised-with-free-buffer",
                    format!("the last advertised window is 0 although {} bytes of the receive buffer are free (segment size {}); nothing woke the connection and no timer will", free, oa.mss),
                ));
            }
        }
    }

    fn last_adv_wnd_before(&self, rec: &StepRecord) -> u32 {
        // self.last_adv_wnd was already updated with this step's emissions; recover the value before
        if rec.emitted.is_empty() {
            self.last_adv_wnd
        } else {
            self.prev_adv_wnd
        }
    }

    fn already_delivered_before(&self, w: &World, i: usize, rec: &StepRecord) -> bool {
        // a duplicate: the packet index was sent in an earlier step as well
        w.trace[..w.trace.len() - 1].iter().any(|r| r.peer_sent.iter().any(|(h, _, idx)| h.ptype == 0 && *idx == Some(i))) || rec.peer_sent.iter().filter(|(h, _, idx)| h.ptype == 0 && *idx == Some(i)).count() > 1
    }
}
