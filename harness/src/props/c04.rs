//! C04 receiver honesty (solo).
use super::solo_drivers::*;
use crate::common::*;

pub fn run(ctx: &Ctx) -> Outcome {
    let mut out = Outcome::default();
    let d = ctx.tier.pick(9, 12);
    run_and_report(ctx, &rx(ctx.tier, 2, vec![MSS], d), &mut out);
    run_and_report(ctx, &rx(ctx.tier, 4, vec![MSS, 1], d), &mut out);
    if ctx.tier == Tier::Thorough {
        run_and_report(ctx, &rx(ctx.tier, 8, vec![MSS, 3], d), &mut out);
    }
    // the peer's initial sequence number at the wrap (the number "before its first packet" wraps)
    for isn in [0u16, 1, 65_535] {
        run_and_report(ctx, &rx_peer_isn(ctx.tier, isn, ctx.tier.pick(6, 8)), &mut out);
    }
    for segs in [1usize, 2, 3] {
        run_and_report(ctx, &rx_burst_fin(ctx.tier, segs, ctx.tier.pick(7, 9)), &mut out);
    }
    run_and_report(ctx, &rx_rude(ctx.tier, d), &mut out);
    run_and_report(ctx, &rx_halfclosed(ctx.tier, d), &mut out);
    run_and_report(ctx, &rx_reader_gone(ctx.tier, ctx.tier.pick(8, 9)), &mut out);
    run_and_report(ctx, &rx_probe_then_fin(ctx.tier, ctx.tier.pick(7, 8)), &mut out);
    // ... and with the reader on another thread than the connection: two reads in a row while the
    // connection has not flushed what it still holds
    {
        use crate::solo::threads::*;
        let tc = ThreadsCfg { base_depth: ctx.tier.pick(2, 3), preemption_bound: ctx.tier.pick(Some(2), Some(3)), max_runs_per_case: ctx.tier.pick(3_000, 100_000), with_suffix: false, triples: false, doubles: true, budget_share: 0.5 };
        explore_threads(ctx, &rx_probe_then_fin(ctx.tier, 0), &tc, &mut out);
    }
    run_and_report(ctx, &rx_after_fin(ctx.tier, false, ctx.tier.pick(6, 7)), &mut out);
    run_and_report(ctx, &rx_after_fin(ctx.tier, true, ctx.tier.pick(6, 7)), &mut out);
    for drv in fsm_all(ctx.tier, ctx.tier.pick(6, 7)).into_iter().filter(|d| d.name.contains("finwait") || d.name.contains("inflight")) {
        run_and_report(ctx, &drv, &mut out);
    }
    out.rule = "C04: explicit-state BFS over arrival orders x payload sizes x reader behaviour on one real connection; states = distinct fingerprints (full connection dump + harness + monitor state)".into();
    out.assumptions.push("the connection task runs between datagram bursts of at most 2 (Deliver2); the peer's sequence numbers cross 65535 during every run".into());
    out.assumptions.push("window bound judged with the hook's accounting of reader-queue + reassembly bytes at the end of the step".into());
    out
}
