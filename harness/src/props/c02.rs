//! C02 progress / promptness (duo part).

use crate::common::*;
use crate::duo::{explore::*, lib, oracles, scenario::*};
use serde_json::json;

pub fn judge(scn: &Scenario, p: &Plan, l: &RunLog) -> Vec<oracles::Finding> {
    let mut v = vec![];
    if oracles::plan_is_fair_lossy(p) {
        v.extend(oracles::progress(scn, l));
    }
    // a size-blackholing path is not "loss-free": the promptness clause does not apply there
    if p.is_empty() && scn.blackhole_above.is_none() && scn.emsgsize_above.is_none() {
        v.extend(oracles::promptness(scn, l));
    }
    v.extend(oracles::fin_emitted(scn, l));
    v.extend(oracles::no_panic_no_bug(l));
    v
}

pub fn run(ctx: &Ctx) -> Outcome {
    let mut out = Outcome::default();
    let always = |_: &RunLog, _: &WireEventLite| true;
    for (i, scn) in lib::core().iter().enumerate() {
        // fin-behind-data drops its reader at once: feeds C03/C08, not the completion clause
        if scn.name == "fin-behind-data" {
            continue;
        }
        let dev = match ctx.tier {
            Tier::Quick => if i < 1 { 3 } else { 2 },
            Tier::Thorough => if i < 2 { 4 } else { 3 },
        };
        // deviations start after the handshake (SYN = #0, SYN-ACK = #1): "on an established connection"
        let cfg = ExploreCfg { max_dev: dev, min_k: 2, fates: fates_basic(), eligible: &always, judge: &judge, max_runs: ctx.tier.pick(400_000, 8_000_000) };
        let r = explore(ctx, scn, &cfg);
        let mut p = Part::fe(&format!("duo:{}", scn.name));
        p.evaluations = r.runs;
        p.distinct_nontrivial = r.distinct_traces;
        p.distinct_outcomes = r.outcome_classes.len() as u64;
        p.bound = format!("all fair-lossy plans with <= {} deviations at send index >= 2; per level {:?}", r.completed_bound, r.per_level);
        if let Some(c) = &r.capped {
            p.caps_hit.push(c.clone());
            p.exhaustive = false;
        }
        p.extra.insert("outcome_classes".into(), json!(r.outcome_classes));
        p.samples.push(json!({"scenario": scn.name, "plan": []}));
        out.violations.extend(findings_to_violations(scn, &r.findings, &judge));
        out.parts.push(p);
    }
    // progress on size-blackholing paths (MTU probing active): the fault-free plan and every single drop
    for (bh, em, retx) in [(Some(600usize), None, 1usize), (Some(600), None, 0), (None, Some(620usize), 1), (None, None, 1)] {
        let mut scn = lib::mtu_transfer(700, bh, em, 12_000, false);
        scn.a.probe_retx = retx;
        scn.a.inactivity_ms = 30_000;
        scn.b.inactivity_ms = 30_000;
        scn.horizon_s = 20;
        scn.name = format!("{}-retx{}", scn.name, retx);
        let cfg = ExploreCfg { max_dev: 1, min_k: 2, fates: vec![crate::duo::sim::Fate::Drop], eligible: &always, judge: &judge, max_runs: ctx.tier.pick(5_000, 100_000) };
        let r = explore(ctx, &scn, &cfg);
        let mut p = Part::fe(&format!("duo:{}", scn.name));
        p.evaluations = r.runs;
        p.distinct_nontrivial = r.distinct_traces;
        p.distinct_outcomes = r.outcome_classes.len() as u64;
        p.bound = format!("12 kB over a probing path, all plans with <= {} dropped datagram; per level {:?}", r.completed_bound, r.per_level);
        if let Some(c) = &r.capped {
            p.caps_hit.push(c.clone());
            p.exhaustive = false;
        }
        p.samples.push(json!({"scenario": scn.name, "plan": []}));
        out.violations.extend(findings_to_violations(&scn, &r.findings, &judge));
        out.parts.push(p);
    }
    // the same when the application just drops both halves after writing (no flush, no shutdown)
    for bh in [None, Some(600usize)] {
        let mut scn = lib::mtu_drop_close(700, bh, 6_000);
        scn.a.inactivity_ms = 30_000;
        scn.b.inactivity_ms = 30_000;
        scn.horizon_s = 20;
        let cfg = ExploreCfg { max_dev: 1, min_k: 2, fates: vec![crate::duo::sim::Fate::Drop], eligible: &always, judge: &judge, max_runs: ctx.tier.pick(5_000, 100_000) };
        let r = explore(ctx, &scn, &cfg);
        let mut p = Part::fe(&format!("duo:{}", scn.name));
        p.evaluations = r.runs;
        p.distinct_nontrivial = r.distinct_traces;
        p.distinct_outcomes = r.outcome_classes.len() as u64;
        p.bound = format!("6 kB over a probing path, halves dropped right after the write, all plans with <= {} dropped datagram; per level {:?}", r.completed_bound, r.per_level);
        if let Some(c) = &r.capped {
            p.caps_hit.push(c.clone());
            p.exhaustive = false;
        }
        p.samples.push(json!({"scenario": scn.name, "plan": []}));
        out.violations.extend(findings_to_violations(&scn, &r.findings, &judge));
        out.parts.push(p);
    }
    // "all MTU configurations": the loss-free promptness clause over a grid of link MTUs (the first probe
    // sizes grow with the link MTU; the initial congestion window does not), both address families
    {
        let mut p = Part::fe("duo:link-mtu-grid");
        let mut classes = std::collections::BTreeSet::new();
        let grid: Vec<(usize, bool)> = ctx.tier.pick(vec![600, 1500, 1700, 4000, 9000], vec![600, 700, 1280, 1500, 1600, 1700, 2000, 3000, 4000, 9000, 16_000, 65_000]).into_iter().flat_map(|m| [(m, false), (m.max(1300), true)]).collect();
        for (link, v6) in grid {
            let bytes = (8 * link).max(12_000);
            let mut scn = lib::mtu_transfer(link, None, None, bytes, v6);
            for c in [&mut scn.a, &mut scn.b] {
                c.rx_buf = 1 << 20;
                c.tx_init = 1 << 18;
                c.tx_max = 1 << 20;
                c.inactivity_ms = 30_000;
            }
            scn.horizon_s = 20;
            let cfg = ExploreCfg { max_dev: ctx.tier.pick(0, 1), min_k: 2, fates: vec![crate::duo::sim::Fate::Drop], eligible: &always, judge: &judge, max_runs: ctx.tier.pick(5_000, 100_000) };
            let r = explore(ctx, &scn, &cfg);
            p.evaluations += r.runs;
            p.distinct_nontrivial += r.distinct_traces;
            for c in r.outcome_classes.keys() {
                classes.insert(format!("{link}:{c}"));
            }
            if let Some(c) = &r.capped {
                p.caps_hit.push(c.clone());
                p.exhaustive = false;
            }
            out.violations.extend(findings_to_violations(&scn, &r.findings, &judge));
        }
        p.distinct_outcomes = classes.len() as u64;
        p.bound = format!("link MTUs {} x {{IPv4, IPv6}}, a transfer of 8 link MTUs (at least 12 kB), {}", ctx.tier.pick("{600, 1500, 1700, 4000, 9000}", "{600 .. 65000} (12 values)"), ctx.tier.pick("the loss-free run", "the loss-free run and every single drop"));
        p.samples.push(json!({"link_mtu": 9000, "plan": []}));
        out.parts.push(p);
    }
    // "all buffer configurations": receive buffers between the initial and the largest segment size, both
    // directions busy while the segment size grows
    {
        let mut p = Part::fe("duo:small-rx-buffer-on-probing-path");
        let mut classes = std::collections::BTreeSet::new();
        for rx_buf in ctx.tier.pick(vec![600usize, 1000, 1400], vec![530, 600, 800, 1000, 1200, 1400, 1500, 3000]) {
            let mut scn = lib::small_rx_probing(rx_buf);
            scn.a.inactivity_ms = 30_000;
            scn.b.inactivity_ms = 30_000;
            scn.horizon_s = 20;
            let cfg = ExploreCfg { max_dev: ctx.tier.pick(0, 1), min_k: 2, fates: vec![crate::duo::sim::Fate::Drop], eligible: &always, judge: &judge, max_runs: ctx.tier.pick(5_000, 100_000) };
            let r = explore(ctx, &scn, &cfg);
            p.evaluations += r.runs;
            p.distinct_nontrivial += r.distinct_traces;
            for c in r.outcome_classes.keys() {
                classes.insert(format!("{rx_buf}:{c}"));
            }
            if let Some(c) = &r.capped {
                p.caps_hit.push(c.clone());
                p.exhaustive = false;
            }
            out.violations.extend(findings_to_violations(&scn, &r.findings, &judge));
        }
        p.distinct_outcomes = classes.len() as u64;
        p.bound = format!("A: 20 kB to B over a link MTU of 1500 with a receive buffer of {} bytes, B: 3 kB to A from 400 ms on; {}", ctx.tier.pick("{600, 1000, 1400}", "{530 .. 3000} (8 values)"), ctx.tier.pick("the loss-free run", "the loss-free run and every single drop"));
        p.samples.push(json!({"rx_buf": 1000, "plan": []}));
        out.parts.push(p);
    }
    // clause 3: wake-ups / immediacy / no deadlock, in every state of the flow and close drivers (solo)
    {
        use super::solo_drivers::*;
        let d = ctx.tier.pick(6, 8);
        run_and_report(ctx, &tx_flow(ctx.tier, 8, 32, d), &mut out);
        run_and_report(ctx, &tx_flow(ctx.tier, 8, 8, d), &mut out);
        run_and_report(ctx, &rx(ctx.tier, 2, vec![MSS], d), &mut out);
        run_and_report(ctx, &rx(ctx.tier, 4, vec![1, MSS], d), &mut out);
        run_and_report(ctx, &rx_grown_mss(ctx.tier, d), &mut out);
        run_and_report(ctx, &rx_empty_read(ctx.tier, ctx.tier.pick(6, 8)), &mut out);
        run_and_report(ctx, &close(ctx.tier, d), &mut out);
        run_and_report(ctx, &sack_keepalive(ctx.tier, ctx.tier.pick(6, 9)), &mut out);
        run_and_report(ctx, &rx_halfclosed(ctx.tier, d), &mut out);
        run_and_report(ctx, &mtu(ctx.tier, 700, None, None, 1, ctx.tier.pick(5, 7)), &mut out);
    }
    // the same wake-up obligations when the halves and the connection run on different threads:
    // every interleaving of their critical sections, from every state a few actions deep
    {
        use super::solo_drivers::*;
        use crate::solo::threads::*;
        let tc = ThreadsCfg { base_depth: ctx.tier.pick(1, 3), preemption_bound: ctx.tier.pick(Some(2), Some(3)), max_runs_per_case: ctx.tier.pick(2_000, 100_000), with_suffix: false, triples: true, doubles: true, budget_share: 0.3 };
        explore_threads(ctx, &tx_flow(ctx.tier, 8, 32, 0), &tc, &mut out);
        explore_threads(ctx, &rx(ctx.tier, 2, vec![MSS], 0), &tc, &mut out);
        explore_threads(ctx, &close(ctx.tier, 0), &tc, &mut out);
    }
    out.rule = "C02: every plan of <= d drop/dup/delay deviations (d below the retransmission limit, hence fair) must complete within the horizon; loss-free runs additionally satisfy the promptness clause".into();
    out.assumptions.push("liveness is decided as bounded liveness: virtual-time horizon 20 s with the inactivity timeout configured to 30 s".into());
    out
}
