//! C08 termination / slot release / silence afterwards (duo).

use crate::common::*;
use crate::duo::{explore::*, lib, oracles, scenario::*, sim::Fate};
use rayon::prelude::*;
use serde_json::json;

pub fn prepare(mut s: Scenario, max_live: usize, cycles: usize) -> Scenario {
    s.a.inactivity_ms = 3_000;
    s.b.inactivity_ms = 3_000;
    s.a.max_live = max_live;
    s.b.max_live = max_live;
    s.horizon_s = 60;
    s.cycles = cycles;
    s.name = format!("{}+live{}x{}", s.name, max_live, cycles);
    s
}

fn judge_plan(scn: &Scenario, _p: &Plan, l: &RunLog) -> Vec<oracles::Finding> {
    let mut v = oracles::termination(scn, l, None, RELEASE_BOUND_US);
    v.extend(oracles::integrity(l));
    v.extend(oracles::no_panic_no_bug(l));
    v
}

fn judge_abort(scn: &Scenario, base: &RunLog, abort: &Abort, l: &RunLog) -> Vec<oracles::Finding> {
    let cancel = match abort {
        Abort::CancelAt(k, a) => l.wire.iter().chain(base.wire.iter()).find(|w| w.k == *k).map(|w| (w.t_us, if *a { Side::A } else { Side::B })),
        _ => None,
    };
    let mut v = oracles::termination(scn, l, cancel, RELEASE_BOUND_US);
    if let Some((tc, side)) = cancel {
        // "all stream halves then report errors": pending and later calls of the cancelled side resolve promptly
        v.extend(oracles::bounded_failure("C08", l, tc, 1_000_000, &[side], true).into_iter().map(|mut f| {
            f.signature = f.signature.replace("abort/", "cancel/");
            f
        }));
        v.extend(oracles::errors_after_death(l).into_iter().map(|mut f| {
            f.property = "C08";
            f.signature = f.signature.replace("abort/", "cancel/");
            f
        }));
    }
    v.extend(oracles::no_panic_no_bug(l));
    v
}

pub fn run(ctx: &Ctx) -> Outcome {
    let mut out = Outcome::default();
    let closing = |l: &RunLog, w: &WireEventLite| {
        let first_fin = l.wire.iter().filter(|x| x.ptype == 1 && !x.injected).map(|x| x.k).min();
        // a lost SYN is never retransmitted by the library (connect just waits): not a closing packet
        first_fin.map(|k0| w.k >= k0).unwrap_or(false) && w.ptype != 4
    };
    // (1) close orders x loss of subsets of the closing packets, 3 cycles with a connection limit of 1
    let scenarios: Vec<Scenario> = vec![lib::a2b_bulk(), lib::drop_close(), lib::fin_behind_data(), lib::both_ways(), lib::ping_pong(), lib::idle_shutdown(), lib::early_shutdown(), lib::acceptor_closes_first()];
    let n = scenarios.len();
    for base_scn in scenarios.iter().take(n) {
        let scn = prepare(base_scn.clone(), 1, 3);
        let cfg = ExploreCfg { max_dev: ctx.tier.pick(2, 3), min_k: 2, fates: vec![Fate::Drop, Fate::Dup, Fate::Delay(300_000)], eligible: &closing, judge: &judge_plan, max_runs: ctx.tier.pick(40_000, 2_000_000) };
        let r = explore(ctx, &scn, &cfg);
        let mut p = Part::fe(&format!("duo-cycles:{}", scn.name));
        p.evaluations = r.runs;
        p.distinct_nontrivial = r.distinct_traces;
        p.distinct_outcomes = r.outcome_classes.len() as u64;
        p.bound = format!("3 connect/transfer/close cycles on one socket pair with max_live_vsocks=1; all plans of <= {} drop/dup/300 ms delay deviations on the packets from the first FIN on (any cycle); per level {:?}", r.completed_bound, r.per_level);
        if let Some(c) = &r.capped {
            p.caps_hit.push(c.clone());
            p.exhaustive = false;
        }
        p.extra.insert("outcome_classes".into(), json!(r.outcome_classes));
        p.samples.push(json!({"scenario": scn.name, "plan": "drop the first FIN of cycle 1"}));
        out.violations.extend(findings_to_violations(&scn, &r.findings, &judge_plan));
        out.parts.push(p);
    }
    // (2) every cut / reset / cancel point (single cycle, connection limit 2)
    for base_scn in scenarios.iter().take(n) {
        let mut scn = prepare(base_scn.clone(), 2, 1);
        for app in [&mut scn.app_a, &mut scn.app_b] {
            if !app.writer.iter().any(|o| matches!(o, WOp::Drop)) {
                app.writer.push(WOp::ProbeAfterDeath);
            }
        }
        let base = determinism_check(&scn, &Abort::None);
        let aborts = crate::props::c03::aborts_for(base.n_sends, &["cut", "reset", "cancel"]);
        let results: Vec<(Vec<oracles::Finding>, u64, String)> = aborts
            .par_iter()
            .map(|a| {
                let l = crate::duo::scenario::run(&scn, &[], a);
                (judge_abort(&scn, &base, a, &l), l.trace_hash, classify(&l))
            })
            .collect();
        let mut p = Part::fe(&format!("duo-abort:{}", scn.name));
        let mut seen = std::collections::HashSet::new();
        let mut classes = std::collections::BTreeMap::new();
        let mut best: std::collections::BTreeMap<String, (oracles::Finding, Abort)> = Default::default();
        for (a, (fs, h, c)) in aborts.iter().zip(results) {
            p.evaluations += 1;
            if seen.insert(h) {
                p.distinct_nontrivial += 1;
            }
            *classes.entry(c).or_insert(0u64) += 1;
            for f in fs {
                best.entry(format!("{}|{}", f.property, f.signature)).or_insert((f, a.clone()));
            }
        }
        p.distinct_outcomes = classes.len() as u64;
        p.bound = format!("every send index k >= 2 of the run ({} sends) x {{network cut, RESET to either side, cancellation of either socket}}", base.n_sends);
        p.samples.push(json!({"scenario": scn.name, "abort": {"CancelAt": [5, true]}}));
        for (_, (f, a)) in best {
            for _ in 0..2 {
                let l = crate::duo::scenario::run(&scn, &[], &a);
                if !judge_abort(&scn, &base, &a, &l).iter().any(|g| g.signature == f.signature) {
                    machinery_error(&format!("C08 finding {} did not reproduce", f.signature));
                }
            }
            out.violations.push(Violation {
                property: f.property.to_string(),
                monitor: f.monitor.to_string(),
                signature: f.signature.clone(),
                detail: format!("[scenario {} abort {:?}] {}", scn.name, a, f.detail),
                replay: replay_json(&scn, &vec![], &a),
            });
        }
        out.parts.push(p);
    }
    // (3) socket event sequences with cancelled accepts / connects: no table entry without a connection
    out.merge(crate::props::sockets::c08_leaks(ctx));
    // (4) a chatty peer after close: the connection still ends within the bound (solo)
    out.merge(chatty_peer(ctx));
    out.merge(silent_peer(ctx));
    out.rule = "C08: fault plans on the closing packets by deviation bounding over 3-cycle runs under a connection limit of 1; abort points enumerated exhaustively; distinct_nontrivial = executions with distinct timed traces".into();
    out.assumptions.push("'bounded time' = 3 s configured inactivity timeout + 6.2 s RTO back-off sum + 1 s final chance + 1 s slack after the application let go".into());
    out.assumptions.push("connection-object lifetime and the connection-table size are read through the verif hooks (H4/H5); the 3-cycle reconnect under max_live_vsocks=1 confirms slot release without hooks".into());
    out
}

/// "Under any network behaviour": after the application let go, a scripted peer keeps delivering a
/// packet every 400 ms (well below the 1 s final-chance timer). The connection object must still end
/// within the release bound. Linear scenarios enumerated over close kind x packet kind x gap.
fn chatty_peer(ctx: &Ctx) -> Outcome {
    use crate::solo::{bfs, world::*};
    let mut out = Outcome::default();
    let def = WndSpec::Default;
    let closes: Vec<(&str, Vec<Act>)> = vec![
        ("shutdown", vec![Act::Write(5), Act::Shutdown]),
        ("drop-both", vec![Act::Write(5), Act::DropWriter, Act::DropReader]),
        ("drop-both-acked", vec![Act::Write(5), Act::Deliver(Pkt::State { ack: AckSpec::All, wnd: def, sack: SackSpec::None }), Act::DropReader, Act::DropWriter]),
    ];
    let chatter: Vec<(&str, Pkt)> = vec![
        ("dup-ack", Pkt::State { ack: AckSpec::Cur, wnd: def, sack: SackSpec::None }),
        ("stale-ack", Pkt::State { ack: AckSpec::Stale, wnd: def, sack: SackSpec::None }),
        ("data", Pkt::Data { off: 0, ack: AckSpec::Cur, wnd: def }),
        ("dup-data", Pkt::Data { off: -1, ack: AckSpec::Cur, wnd: def }),
        ("far-data", Pkt::DataLen { off: 1025, len: 3 }),
        ("syn", Pkt::Syn),
    ];
    let mut part = Part::fe("solo:chatty-peer-after-close");
    let mut seen = std::collections::HashSet::new();
    for (cname, close) in &closes {
        for (pname, pkt) in &chatter {
            if *cname == "shutdown" && *pname == "data" {
                // the read half is still held and the shutdown has not completed: new in-order data is
                // legitimate traffic of a half-closed connection, the application has not let go
                continue;
            }
            for gap in [400u64, 900] {
                let mut cfg = SoloCfg::tiny(10);
                cfg.inactivity_ms = 3_000;
                cfg.peer_lens = vec![3];
                let mut actions = close.clone();
                // the release bound (11.2 s) worth of chatter and a bit more
                let rounds = (13_000 / gap) as usize;
                for _ in 0..rounds {
                    actions.push(Act::Sleep(gap));
                    actions.push(Act::Deliver(pkt.clone()));
                }
                let d = bfs::Driver { name: format!("chatty-{cname}-{pname}-{gap}ms"), cfg: cfg.clone(), prefix: vec![], alphabet: actions.clone(), depth: 0, state_cap: 0 };
                // linear execution: history = 0,1,2,...; stop when an action is no longer applicable (connection gone)
                let mut end_t: Option<u64> = None;
                let mut let_go_t: Option<u64> = None;
                let hist: Vec<u8> = (0..actions.len().min(250) as u8).collect();
                // find the longest applicable prefix
                let mut lo = close.len();
                let mut hi = hist.len();
                while lo < hi {
                    let mid = (lo + hi + 1) / 2;
                    if bfs::execute(&d, &hist[..mid], false).is_some() {
                        lo = mid;
                    } else {
                        hi = mid - 1;
                    }
                }
                if let Some((_, Some((w, _)))) = bfs::execute(&d, &hist[..lo], true) {
                    part.evaluations += 1;
                    seen.insert(w.trace.len() * 1000 + w.trace.iter().map(|r| r.emitted.len()).sum::<usize>());
                    for r in &w.trace {
                        if let_go_t.is_none() && r.step > 0 && r.step as usize == close.len() {
                            let_go_t = Some(r.t_us);
                        }
                        if end_t.is_none() && r.obs_after.is_none() {
                            end_t = Some(r.t_us);
                        }
                    }
                    let lg = let_go_t.unwrap_or(0);
                    let alive_at_end = w.done.is_none();
                    let last_t = w.trace.last().map(|r| r.t_us).unwrap_or(0);
                    let late = match end_t {
                        Some(t) => t > lg + RELEASE_BOUND_US,
                        None => alive_at_end && last_t > lg + RELEASE_BOUND_US,
                    };
                    if std::env::var("VERIF_CHATTY_DEBUG").is_ok() {
                        eprintln!("chatty {} let_go={} end={:?} last={} alive={} steps={}", d.name, lg, end_t, last_t, alive_at_end, lo);
                    }
                    if late {
                        out.violations.push(Violation {
                            property: "C08".into(),
                            monitor: "termination".into(),
                            signature: "termination/chatty-peer-keeps-closed-connection-alive".into(),
                            detail: format!("[{}] the application let go at {} us; a peer that keeps sending '{}' every {} ms kept the connection object alive until {:?} (run ended at {} us; bound {} us)", d.name, lg, pname, gap, end_t, last_t, RELEASE_BOUND_US),
                            replay: bfs::replay_json(&d, &hist[..lo]),
                        });
                    }
                }
            }
        }
    }
    part.distinct_nontrivial = seen.len() as u64;
    part.distinct_outcomes = seen.len() as u64;
    part.bound = "3 ways of letting go x 6 kinds of peer chatter (new in-order data only once both halves are gone) x gaps {400 ms, 900 ms}; between packets the full gap passes with the connection polled at each of its timers; chatter continued for 13 s of virtual time".into();
    part.samples.push(json!({"close": "drop-both", "chatter": "dup-ack", "gap_ms": 400}));
    // de-duplicate violations by signature (keep the first)
    let mut sigs = std::collections::BTreeSet::new();
    out.violations.retain(|v| sigs.insert(v.signature.clone()));
    out.parts.push(part);
    let _ = ctx;
    out
}


/// "Under any network behaviour" also covers a peer that closes its window and then vanishes: every
/// sequence of <= d actions over {write more than the peer's window, drop either half, ACKs that
/// advertise a zero / too small / open window, duplicate ACK, timer}, followed by 13 s of silence.
/// If both halves are gone by then, the connection object must have ended within the release bound.
fn silent_peer(ctx: &Ctx) -> Outcome {
    use crate::solo::{bfs, world::*};
    let mut out = Outcome::default();
    let mut cfg = SoloCfg::tiny(10);
    cfg.inactivity_ms = 3_000;
    cfg.peer_wnd = 20;
    cfg.peer_lens = vec![3];
    let st = |ack, wnd| Act::Deliver(Pkt::State { ack, wnd, sack: SackSpec::None });
    let alphabet = vec![
        Act::Write(40),
        Act::Write(10),
        Act::DropWriter,
        Act::DropReader,
        st(AckSpec::All, WndSpec::Bytes(0)),
        st(AckSpec::All, WndSpec::Bytes(5)),
        st(AckSpec::Plus(1), WndSpec::Bytes(0)),
        st(AckSpec::Cur, WndSpec::Default),
        Act::Deliver(Pkt::Fin { off: 0, ack: AckSpec::All }),
        Act::Deliver(Pkt::Fin { off: 0, ack: AckSpec::Cur }),
        st(AckSpec::Beyond, WndSpec::Default),
        // an acknowledgement of everything riding on a data packet (a plain ST_STATE with the peer's next
        // sequence number that acknowledges our FIN is taken as the peer's FIN: fin-wait-2 is only reached
        // this way)
        Act::Deliver(Pkt::Data { off: 0, ack: AckSpec::All, wnd: WndSpec::Default }),
        Act::Tick,
        Act::Sleep(13_000),
    ];
    let sleep_idx = (alphabet.len() - 1) as u8;
    let depth = ctx.tier.pick(6, 7);
    let d = bfs::Driver { name: "silent-peer-after-close".into(), cfg, prefix: vec![], alphabet: alphabet.clone(), depth: 0, state_cap: 0 };
    // all histories of length <= depth over the non-sleep actions in which both halves get dropped
    let n = sleep_idx as usize;
    let mut hists: Vec<Vec<u8>> = vec![vec![]];
    let mut frontier: Vec<Vec<u8>> = vec![vec![]];
    for _ in 0..depth {
        let mut next = vec![];
        for h in &frontier {
            for a in 0..n as u8 {
                // each half is dropped at most once, one write at most twice
                if (a == 2 || a == 3) && h.contains(&a) {
                    continue;
                }
                if (a == 0 || a == 1) && h.iter().filter(|x| **x == a).count() >= 2 {
                    continue;
                }
                let mut g = h.clone();
                g.push(a);
                next.push(g);
            }
        }
        hists.extend(next.iter().cloned());
        frontier = next;
    }
    let hists: Vec<Vec<u8>> = hists.into_iter().filter(|h| h.contains(&2) && h.contains(&3)).collect();
    let results: Vec<Option<(Vec<u8>, u64, Option<(String, String)>)>> = hists
        .par_iter()
        .map(|h| {
            let mut hist = h.clone();
            hist.push(sleep_idx);
            let (_, wm) = bfs::execute(&d, &hist, true)?;
            let (w, _) = wm?;
            let let_go_step = h.iter().rposition(|a| *a == 2 || *a == 3).unwrap();
            let lg = w.trace.iter().find(|r| r.step == let_go_step + 1).map(|r| r.t_us).unwrap_or(0);
            let end_t = w.trace.iter().find(|r| r.obs_after.is_none()).map(|r| r.t_us);
            let last = w.trace.last().unwrap();
            let late = match end_t {
                Some(t) => t > lg + RELEASE_BOUND_US,
                None => last.t_us > lg + RELEASE_BOUND_US,
            };
            let class = end_t.map(|t| (t.saturating_sub(lg)) / 500_000).unwrap_or(u64::MAX);
            let finding = if late {
                let ob = last.obs_after.as_ref();
                let what = match ob {
                    Some(o) if o.tx_segments > 0 => "queued-segment-and-no-timer",
                    Some(o) if o.tx_ring_len > 0 => "uncut-bytes-behind-a-closed-window-and-no-timer",
                    Some(o) if o.state != "established" && o.timers[1].is_none() => "closing-state-with-no-inactivity-or-final-chance-timer",
                    _ => "other",
                };
                Some((
                    format!("termination/closed-connection-outlives-a-silent-peer:{what}"),
                    format!("both halves were dropped at {lg} us; after 13 s of silence the connection object is {} (state {:?}, timers {:?}, tx_segments {:?}, ring bytes {:?})", if end_t.is_some() { "gone too late" } else { "still alive" }, ob.map(|o| o.state), ob.map(|o| o.timers), ob.map(|o| o.tx_segments), ob.map(|o| o.tx_ring_len)),
                ))
            } else {
                None
            };
            Some((hist, class, finding))
        })
        .collect();
    let mut part = Part::fe("solo:silent-peer-after-close");
    let mut classes = std::collections::BTreeSet::new();
    let mut sigs = std::collections::BTreeSet::new();
    for r in results.into_iter().flatten() {
        part.evaluations += 1;
        classes.insert(r.1);
        if let Some((sig, detail)) = r.2 {
            if sigs.insert(sig.clone()) {
                out.violations.push(Violation { property: "C08".into(), monitor: "termination".into(), signature: sig, detail: format!("[{} {:?}] {}", d.name, r.0, detail), replay: bfs::replay_json(&d, &r.0) });
            }
        }
    }
    part.distinct_nontrivial = classes.len() as u64;
    part.distinct_outcomes = classes.len() as u64;
    part.bound = format!("all sequences of <= {depth} actions over [write 40 B into a 20 B peer window, write 10 B, drop writer, drop reader, ACK-all wnd 0, ACK-all wnd 5, ACK+1 wnd 0, duplicate ACK, the peer's FIN (acknowledging everything / nothing new), an ACK for data never sent, a data packet acknowledging everything, timer] that drop both halves, each followed by 13 s without any packet from the peer; outcome classes = time from letting go to the end of the connection in 0.5 s buckets");
    part.samples.push(json!({"history": [0, 2, 4, 3, 13]}));
    out.parts.push(part);
    out
}
