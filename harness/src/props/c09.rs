//! C09: (a) all 2^32 sequence-number pairs (exhaust); (b) metamorphic ISN / connection-id invariance:
//! the packet trace of a run equals the trace of the same run with other initial sequence numbers
//! after relabelling, with the 16-bit wrap placed at every position of the run.

use crate::common::*;
use crate::duo::{explore::*, lib, scenario::*, sim::Fate};
use rayon::prelude::*;
use serde_json::json;

type Norm = Vec<(u64, bool, u8, u16, u16, u16, u32, usize, Option<(Vec<u8>, usize)>, Vec<u8>, bool)>;

fn normalize(scn: &Scenario, l: &RunLog) -> (Norm, Vec<String>) {
    let (cid, isn_a, isn_b) = (scn.a.randoms[0], scn.a.randoms[1], scn.b.randoms[1]);
    let n = l
        .wire
        .iter()
        .map(|w| {
            let (isn_s, isn_o) = if w.from_a { (isn_a, isn_b) } else { (isn_b, isn_a) };
            let ack_rel = if w.ptype == 4 { w.ack } else { w.ack.wrapping_sub(isn_o) };
            (w.t_us, w.from_a, w.ptype, w.conn_id.wrapping_sub(cid), w.seq.wrapping_sub(isn_s), ack_rel, w.wnd, w.len, w.sack.clone(), w.payload.clone(), w.fate == Fate::Drop)
        })
        .collect();
    let app = l.app.iter().map(|e| format!("{} {:?} {:?}", e.t_us, e.side, e.ev)).collect();
    (n, app)
}

pub fn run(ctx: &Ctx) -> Outcome {
    let mut out = crate::exhaust::seqnr::run(ctx);
    let mut scns = lib::core();
    let pick = ctx.tier.pick(4, scns.len());
    scns.truncate(pick);
    // the peer's FIN meets an established connection that still has cut-but-unsent segments queued
    scns.push(lib::early_shutdown());
    for scn in scns.iter() {
        // plans: fault-free and every single drop / 300 ms delay (these produce SACK, fast retransmit and RTO)
        let base = determinism_check(scn, &Abort::None);
        let mut plans: Vec<Plan> = vec![vec![]];
        for k in 2..base.n_sends {
            plans.push(vec![(k, Fate::Drop)]);
            // a late copy / a late original: old packets meet a connection that has moved on (closing states)
            plans.push(vec![(k, Fate::Delay(300_000))]);
            if ctx.tier == Tier::Thorough {
                plans.push(vec![(k, Fate::Dup)]);
                plans.push(vec![(k, Fate::Delay(15_000))]);
            }
        }
        // two drops close together (two holes in one window: SACK recovery with several holes, whose
        // pipe / lost-marking arithmetic runs over the in-flight range)
        let pair_span = ctx.tier.pick(5, 8);
        for k1 in 2..base.n_sends {
            for k2 in k1 + 1..(k1 + 1 + pair_span).min(base.n_sends) {
                plans.push(vec![(k1, Fate::Drop), (k2, Fate::Drop)]);
            }
        }
        // ISN placements: the wrap falls at every position of the run on either side, on the diagonal,
        // plus connection ids around the wrap
        let span = (base.n_sends as u16 + 4).min(80);
        let mut variants: Vec<(u16, u16, u16)> = vec![]; // (conn id, isn a, isn b)
        for k in 0..=span {
            variants.push((100, 0u16.wrapping_sub(k), 2000));
            variants.push((100, 1000, 0u16.wrapping_sub(k)));
            variants.push((100, 0u16.wrapping_sub(k), 0u16.wrapping_sub(k)));
        }
        for cid in [65533u16, 65534, 65535, 0] {
            variants.push((cid, 1000, 2000));
            variants.push((cid, 65530, 65529));
        }
        variants.push((100, 32767, 32768));
        if ctx.tier == Tier::Thorough && scn.name == "a2b-bulk" {
            for i in 0..=65535u16 {
                variants.push((100, i, 2000));
                variants.push((100, 1000, i));
            }
        }
        let mut part = Part::fe(&format!("duo-isn:{}", scn.name));
        let results: Vec<(u64, u64, Option<(Plan, (u16, u16, u16), String)>)> = plans
            .par_iter()
            .map(|plan| {
                let ref_run = run_with(scn, plan, (100, 1000, 2000));
                let ref_norm = normalize(&with_ids(scn, (100, 1000, 2000)), &ref_run);
                let mut evals = 1u64;
                let mut distinct = std::collections::HashSet::new();
                distinct.insert(ref_run.trace_hash);
                let mut bad = None;
                                for (vi, v) in variants.iter().enumerate() {
                    // on two-drop plans only the diagonal variants (both sides wrap at the same position)
                    if plan.len() > 1 && vi % 3 != 2 && vi < 3 * (span as usize + 1) {
                        continue;
                    }
                    if plan.len() > 1 && vi > 3 * (span as usize + 1) + 9 {
                        break;
                    }
                    let l = run_with(scn, plan, *v);
                    evals += 1;
                    distinct.insert(l.trace_hash);
                    let nrm = normalize(&with_ids(scn, *v), &l);
                    if nrm != ref_norm && bad.is_none() {
                        // first differing datagram
                        let idx = nrm.0.iter().zip(ref_norm.0.iter()).position(|(a, b)| a != b).unwrap_or(nrm.0.len().min(ref_norm.0.len()));
                        let msg = format!(
                            "with connection id {} and initial sequence numbers A={} B={} the trace differs from the reference run (ids 100/1000/2000) after relabelling: {} vs {} datagrams, first difference at datagram #{}: {:?} vs {:?}",
                            v.0, v.1, v.2, nrm.0.len(), ref_norm.0.len(), idx,
                            nrm.0.get(idx).map(|x| (x.0, x.1, x.2, x.4, x.5, x.7)),
                            ref_norm.0.get(idx).map(|x| (x.0, x.1, x.2, x.4, x.5, x.7))
                        );
                        bad = Some((plan.clone(), *v, msg));
                    }
                }
                (evals, distinct.len() as u64, bad)
            })
            .collect();
        for (e, d, bad) in results {
            part.evaluations += e;
            part.distinct_nontrivial += d;
            if let Some((plan, v, msg)) = bad {
                if !out.violations.iter().any(|x| x.signature == "isn/trace-differs-after-relabelling") {
                    let s2 = with_ids(scn, v);
                    out.violations.push(Violation {
                        property: "C09".into(),
                        monitor: "isn-metamorphic".into(),
                        signature: "isn/trace-differs-after-relabelling".into(),
                        detail: format!("[scenario {} plan {:?}] {}", scn.name, plan, msg),
                        replay: replay_json(&s2, &plan, &Abort::None),
                    });
                }
            }
        }
        part.distinct_outcomes = 2;
        part.bound = format!("{} fault plans (fault-free + every single drop / 300 ms delay{} + every pair of drops at most {pair_span} sends apart) x {} (connection id, ISN A, ISN B) placements: the wrap at every one of the first {} positions on either side and on the diagonal, ids around 65535", plans.len(), if ctx.tier == Tier::Thorough { " / dup / 15 ms delay" } else { "" }, variants.len(), span);
        part.samples.push(json!({"scenario": scn.name, "ids": [100, 65530, 2000], "plan": []}));
        out.parts.push(part);
    }
    out.rule = "C09: all 2^32 pairs for the arithmetic; metamorphic runs of two real sockets: identical timed traces after subtracting the initial sequence numbers / connection id".into();
    out
}

fn with_ids(scn: &Scenario, v: (u16, u16, u16)) -> Scenario {
    let mut s = scn.clone();
    s.a.randoms = vec![v.0, v.1];
    s.b.randoms = vec![300, v.2];
    s
}

fn run_with(scn: &Scenario, plan: &Plan, v: (u16, u16, u16)) -> RunLog {
    crate::duo::scenario::run(&with_ids(scn, v), plan, &Abort::None)
}
