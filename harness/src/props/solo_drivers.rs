//! Driver library for the `solo` engine.

use crate::common::*;
use crate::solo::{bfs::*, world::*};

pub const MSS: usize = 10;

fn data(off: i32) -> Act {
    Act::Deliver(Pkt::Data { off, ack: AckSpec::Cur, wnd: WndSpec::Default })
}
fn pdata(off: i32) -> Pkt {
    Pkt::Data { off, ack: AckSpec::Cur, wnd: WndSpec::Default }
}
fn state(ack: AckSpec, wnd: WndSpec, sack: SackSpec) -> Act {
    Act::Deliver(Pkt::State { ack, wnd, sack })
}

/// Receiver side: arrival orders x sizes x reader behaviour, window-respecting peer.
pub fn rx(tier: Tier, segs: usize, lens: Vec<usize>, depth: usize) -> Driver {
    let mut cfg = SoloCfg::tiny(MSS);
    cfg.rx_buf = segs * MSS;
    cfg.peer_lens = lens.clone();
    cfg.peer_respects_window = true;
    let alphabet = vec![
        data(0),
        data(1),
        data(-1),
        data(2),
        Act::Deliver2(pdata(0), pdata(0)),
        Act::Deliver(Pkt::Fin { off: 0, ack: AckSpec::Cur }),
        Act::Read(1),
        Act::Read(64),
        Act::DropReader,
        Act::Tick,
        Act::Wait(5),
        Act::Spurious,
    ];
    Driver { name: format!("rx-{segs}seg-lens{lens:?}"), cfg, prefix: vec![], alphabet, depth, state_cap: tier.pick(400_000, 6_000_000) }
}

/// Receiver side with a peer that ignores the window (beyond the window, far ahead, after FIN).
pub fn rx_rude(tier: Tier, depth: usize) -> Driver {
    let mut cfg = SoloCfg::tiny(MSS);
    cfg.rx_buf = 3 * MSS;
    cfg.peer_lens = vec![MSS, 1];
    cfg.peer_respects_window = false;
    let alphabet = vec![
        data(0),
        data(1),
        data(-1),
        data(2),
        data(3),
        data(1025),
        Act::Deliver(Pkt::Fin { off: 0, ack: AckSpec::Cur }),
        Act::Deliver(Pkt::Fin { off: 1, ack: AckSpec::Cur }),
        Act::Read(64),
        Act::Read(3),
        Act::Tick,
    ];
    Driver { name: "rx-rude".into(), cfg, prefix: vec![], alphabet, depth, state_cap: tier.pick(400_000, 6_000_000) }
}

/// Sender side: ACK / window histories x writes.
pub fn tx_window(tier: Tier, nagle: bool, mss: usize, depth: usize) -> Driver {
    let mut cfg = SoloCfg::tiny(mss);
    cfg.nagle = nagle;
    cfg.tx_init = 8 * mss;
    cfg.tx_max = 8 * mss;
    cfg.peer_wnd = 4 * mss as u32;
    let w = |b: usize| WndSpec::Bytes(b as u32);
    let alphabet = vec![
        Act::Write(3 * mss),
        Act::Write(1),
        state(AckSpec::Cur, w(4 * mss), SackSpec::None),
        state(AckSpec::Plus(1), w(4 * mss), SackSpec::None),
        state(AckSpec::All, w(4 * mss), SackSpec::None),
        state(AckSpec::All, w(0), SackSpec::None),
        state(AckSpec::Plus(1), w(1), SackSpec::None),
        state(AckSpec::Cur, w(mss), SackSpec::None),
        state(AckSpec::All, w(2 * mss), SackSpec::None),
        state(AckSpec::Cur, w(1 << 20), SackSpec::None),
        Act::Tick,
        Act::Spurious,
    ];
    Driver { name: format!("tx-window-mss{mss}-nagle{nagle}"), cfg, prefix: vec![], alphabet, depth, state_cap: tier.pick(400_000, 6_000_000) }
}

pub fn run_and_report(ctx: &Ctx, d: &Driver, out: &mut Outcome) {
    let r = run_driver(ctx, d);
    report(d, &r, out);
}
