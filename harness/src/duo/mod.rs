//! `duo`: two (or more) real `UtpSocket`s with their real spawned tasks on one seeded, paused-clock
//! current-thread runtime, connected by a simulated datagram network with an explicit fault plan.

pub mod debug;
pub mod explore;
pub mod lib;
pub mod oracles;
pub mod scenario;
pub mod sim;
pub mod sockdrv;

use serde_json::Value;

/// Re-executes a recorded (scenario, plan, abort) linearly and prints the timeline and all findings.
pub fn replay(v: &Value) -> i32 {
    let r = &v["replay"];
    let scn: scenario::Scenario = match serde_json::from_value(r["scenario"].clone()) {
        Ok(s) => s,
        Err(e) => crate::common::machinery_error(&format!("bad scenario in replay: {e}")),
    };
    let plan: Vec<(usize, sim::Fate)> = serde_json::from_value(r["plan"].clone()).unwrap_or_default();
    let abort: scenario::Abort = serde_json::from_value(r["abort"].clone()).unwrap_or(scenario::Abort::None);
    let l = scenario::run(&scn, &plan, &abort);
    debug::print_timeline(&l);
    let mut fs = vec![];
    fs.extend(oracles::integrity(&l));
    fs.extend(oracles::no_panic_no_bug(&l));
    fs.extend(oracles::emitted_wellformed(&l));
    {
        let base = scenario::run(&scn, &[], &scenario::Abort::None);
        fs.extend(crate::props::c03::judge_abort(&scn, &base, &abort, &l));
    }
    fs.extend(oracles::fin_emitted(&scn, &l));
    {
        let cancel = match &abort {
            scenario::Abort::CancelAt(k, a) => l.wire.iter().find(|w| w.k == *k).map(|w| (w.t_us, if *a { scenario::Side::A } else { scenario::Side::B })),
            _ => None,
        };
        fs.extend(oracles::termination(&scn, &l, cancel, scenario::RELEASE_BOUND_US));
    }
    if matches!(abort, scenario::Abort::None) {
        fs.extend(oracles::progress(&scn, &l));
        if plan.is_empty() {
            fs.extend(oracles::promptness(&scn, &l));
        }
    }
    let want = v["signature"].as_str().unwrap_or("");
    let mut hit = false;
    for f in &fs {
        println!("FINDING {} {} {}: {}", f.property, f.monitor, f.signature, f.detail);
        if f.signature == want {
            hit = true;
        }
    }
    if hit {
        println!("REPLAY-VIOLATION {want}");
        1
    } else {
        println!("REPLAY-OK (recorded signature {want:?} not reproduced)");
        0
    }
}
