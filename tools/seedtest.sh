#!/bin/sh
# usage: tools/seedtest.sh <patch.diff> <Cxx> [<Cxx> ...]   - applies a seeded change to /repo, runs the quick checks, reverts
patch="$1"; shift
cd /repo || exit 2
if ! git diff --quiet; then echo "/repo has uncommitted changes"; exit 2; fi
git apply "$patch" || { echo "patch does not apply"; exit 2; }
for p in "$@"; do
  echo "--- $p with $(basename $(dirname $patch))"
  ( cd /verif && ./check $p --tier ${TIER:-quick} 2>&1 | grep -E "^(VIOLATION|KNOWN-FINDING|MACHINERY|SUMMARY|  monitor|INFO)" | head -${LINES_MAX:-12} ; echo "exit=$?" )
done
git -C /repo checkout -- . && git -C /repo clean -fdq -e target
