//! Scenarios: socket configurations + scripted applications, executed to completion on a fresh
//! paused-clock runtime. Produces a `RunLog` that the oracles judge.

use std::{
    future::poll_fn,
    net::{IpAddr, Ipv4Addr, Ipv6Addr, SocketAddr},
    num::NonZeroUsize,
    pin::Pin,
    sync::Arc,
    task::Poll,
    time::Duration,
};

use librqbit_utp::{SocketOpts, UtpSocket, UtpStreamReadHalf, UtpStreamWriteHalf};
use parking_lot::Mutex;
use serde::{Deserialize, Serialize};
use tokio::io::{AsyncRead, AsyncWrite, ReadBuf};
use tokio_util::sync::CancellationToken;

use super::sim::*;

pub type Sock = UtpSocket<SimTransport, VEnv>;

#[derive(Clone, Debug, Serialize, Deserialize, PartialEq)]
pub struct SockCfg {
    pub link_mtu: usize,
    pub rx_buf: usize,
    pub tx_init: usize,
    pub tx_max: usize,
    pub nagle: bool,
    pub max_retx: usize,
    pub inactivity_ms: u64,
    pub max_live: usize,
    pub wait_last_ack: bool,
    pub probe_retx: usize,
    /// scripted random_u16 values: [first connection id, then ISNs in order of use]
    pub randoms: Vec<u16>,
}

impl SockCfg {
    /// MSS `mss` bytes without MTU probing (link_mtu <= 576), tiny buffers.
    pub fn tiny(mss: usize) -> Self {
        SockCfg {
            link_mtu: 48 + mss,
            rx_buf: 8 * mss,
            tx_init: 4 * mss,
            tx_max: 16 * mss,
            nagle: true,
            max_retx: 5,
            inactivity_ms: 30_000,
            max_live: 128,
            wait_last_ack: true,
            probe_retx: 1,
            randoms: vec![100, 1000],
        }
    }
    pub fn opts(&self, token: CancellationToken) -> SocketOpts {
        SocketOpts {
            link_mtu: NonZeroUsize::new(self.link_mtu),
            vsock_rx_bufsize_bytes: NonZeroUsize::new(self.rx_buf),
            vsock_tx_bufsize_bytes_initial: NonZeroUsize::new(self.tx_init),
            vsock_tx_bufsize_bytes_max: NonZeroUsize::new(self.tx_max),
            disable_nagle: !self.nagle,
            congestion: Default::default(),
            parent_span: None,
            cancellation_token: token,
            max_retransmissions: NonZeroUsize::new(self.max_retx),
            remote_inactivity_timeout: Some(Duration::from_millis(self.inactivity_ms)),
            max_live_vsocks: NonZeroUsize::new(self.max_live),
            dont_wait_for_lastack: !self.wait_last_ack,
            mtu_probe_max_retransmissions: Some(self.probe_retx),
        }
    }
}

#[derive(Clone, Debug, Serialize, Deserialize, PartialEq)]
pub enum WOp {
    /// write_all of n position-coded bytes
    Write(usize),
    PauseMs(u64),
    Flush,
    Shutdown,
    /// drop the write half now (otherwise it is dropped when the script ends)
    Drop,
    /// keep the half alive until the run ends
    Hold,
    /// wait until this side's reader has read at least n bytes in total (or has finished)
    WaitRead(u64),
    /// wait until no connection object is alive any more (at most 60 s), then make one more
    /// write(1 byte), flush and shutdown to see what later calls report
    ProbeAfterDeath,
}

#[derive(Clone, Debug, Serialize, Deserialize, PartialEq)]
pub enum ROp {
    /// read with a buffer of this size until EOF or error
    ReadToEof(usize),
    /// read until at least n bytes in total were read (or EOF/error)
    ReadN(usize, usize),
    PauseMs(u64),
    Drop,
    Hold,
    /// wait until no connection object is alive any more (at most 60 s), then read once more
    ProbeAfterDeath,
}

#[derive(Clone, Debug, Serialize, Deserialize, PartialEq)]
pub struct AppScript {
    pub writer: Vec<WOp>,
    pub reader: Vec<ROp>,
}

#[derive(Clone, Debug, Serialize, Deserialize, PartialEq)]
pub struct Scenario {
    pub name: String,
    pub a: SockCfg,
    pub b: SockCfg,
    pub ipv6: bool,
    pub latency_us: u64,
    pub blackhole_above: Option<usize>,
    pub emsgsize_above: Option<usize>,
    /// connector side application
    pub app_a: AppScript,
    /// acceptor side application
    pub app_b: AppScript,
    /// virtual-time watchdog for the whole run (per cycle), seconds
    pub horizon_s: u64,
    pub rng_seed: u64,
    /// number of connect/transfer/close cycles run back to back on the same socket pair
    #[serde(default = "one")]
    pub cycles: usize,
}

fn one() -> usize {
    1
}

impl Scenario {
    pub fn addr_a(&self) -> SocketAddr {
        if self.ipv6 {
            SocketAddr::new(IpAddr::V6(Ipv6Addr::new(0xfd00, 0, 0, 0, 0, 0, 0, 1)), 1001)
        } else {
            SocketAddr::new(IpAddr::V4(Ipv4Addr::new(10, 0, 0, 1)), 1001)
        }
    }
    pub fn addr_b(&self) -> SocketAddr {
        if self.ipv6 {
            SocketAddr::new(IpAddr::V6(Ipv6Addr::new(0xfd00, 0, 0, 0, 0, 0, 0, 2)), 1002)
        } else {
            SocketAddr::new(IpAddr::V4(Ipv4Addr::new(10, 0, 0, 2)), 1002)
        }
    }
}

/// Position-coded payload: a wrong offset, a duplicate or a swap shows in the data itself.
pub fn coded(pos: u64, salt: u8) -> u8 {
    ((pos % 251) as u8).wrapping_mul(7).wrapping_add(salt).wrapping_add((pos / 251 % 256) as u8)
}

#[derive(Clone, Copy, Debug, PartialEq, Eq, Hash, Serialize)]
pub enum Side {
    A,
    B,
}

#[derive(Clone, Debug, PartialEq, Serialize)]
pub enum AppEv {
    Connected,
    Accepted,
    ConnectErr(String),
    AcceptErr(String),
    /// poll_write accepted n bytes (stream offset before the call)
    WriteAccepted { off: u64, n: usize },
    WritePending,
    WriteErr(String),
    FlushCalled,
    FlushOk,
    FlushErr(String),
    ShutdownCalled,
    ShutdownOk,
    ShutdownErr(String),
    WriterDropped,
    WriterScriptDone,
    ReadPending,
    /// poll_read returned n bytes; `ok` = they matched the coded stream at offset `off`
    ReadGot { off: u64, n: usize, ok: bool, first_bad: Option<u64> },
    ReadEof { at: u64 },
    ReadErr(String),
    ReaderDropped,
    ReaderScriptDone,
    CycleStart(usize),
    /// the previous cycle's connection objects were still alive after the release bound
    CycleLeak { live: usize },
    /// later calls follow; `dead` = no connection object was alive any more when they started
    ProbePhase { dead: bool },
}

#[derive(Clone, Debug, Serialize)]
pub struct AppEvent {
    pub t_us: u64,
    pub side: Side,
    pub ev: AppEv,
}

#[derive(Default)]
pub struct Recorder {
    pub events: Vec<AppEvent>,
    /// bytes accepted by poll_write so far, per writing side [A, B]
    pub accepted: [u64; 2],
    /// bytes returned by poll_read so far, per reading side [A, B]
    pub read: [u64; 2],
    pub cycle_read_base: [u64; 2],
    pub reader_done: [bool; 2],
    pub writer_done: [bool; 2],
    /// woken whenever a reader makes progress or finishes
    pub read_progress: [Arc<tokio::sync::Notify>; 2],
}

pub type Rec = Arc<Mutex<Recorder>>;

fn idx(s: Side) -> usize {
    match s {
        Side::A => 0,
        Side::B => 1,
    }
}

fn other(s: Side) -> Side {
    match s {
        Side::A => Side::B,
        Side::B => Side::A,
    }
}

pub fn salt_of(writer_side: Side) -> u8 {
    match writer_side {
        Side::A => 0x11,
        Side::B => 0x5a,
    }
}

fn log(rec: &Rec, net: &SimNet, side: Side, ev: AppEv) {
    let t_us = net.now_us();
    rec.lock().events.push(AppEvent { t_us, side, ev });
}

/// Waits (at most 60 s of virtual time) until no connection object is alive on this thread.
async fn wait_all_dead() -> bool {
    for _ in 0..1200 {
        if librqbit_utp::verif::live_vsocks().is_empty() {
            return true;
        }
        tokio::time::sleep(Duration::from_millis(50)).await;
    }
    false
}

pub async fn run_writer(mut w: Option<UtpStreamWriteHalf>, script: Vec<WOp>, side: Side, rec: Rec, net: Arc<SimNet>, salt: u8, hold: Arc<tokio::sync::Notify>) {
    let mut pos: u64 = 0;
    let mut hold_it = false;
    'ops: for op in script {
        match op {
            WOp::Write(n) => {
                let data: Vec<u8> = (0..n as u64).map(|i| coded(pos + i, salt)).collect();
                let mut done = 0usize;
                while done < n {
                    let Some(wh) = w.as_mut() else { break 'ops };
                    let mut was_pending = false;
                    let r = poll_fn(|cx| {
                        let r = Pin::new(&mut *wh).poll_write(cx, &data[done..]);
                        if r.is_pending() && !was_pending {
                            was_pending = true;
                            log(&rec, &net, side, AppEv::WritePending);
                        }
                        r
                    })
                    .await;
                    match r {
                        Ok(k) => {
                            {
                                rec.lock().accepted[idx(side)] += k as u64;
                            }
                            log(&rec, &net, side, AppEv::WriteAccepted { off: pos, n: k });
                            pos += k as u64;
                            done += k;
                            if k == 0 {
                                log(&rec, &net, side, AppEv::WriteErr("poll_write returned Ok(0)".into()));
                                break 'ops;
                            }
                        }
                        Err(e) => {
                            log(&rec, &net, side, AppEv::WriteErr(e.to_string()));
                            break 'ops;
                        }
                    }
                }
            }
            WOp::PauseMs(ms) => tokio::time::sleep(Duration::from_millis(ms)).await,
            WOp::Flush => {
                let Some(wh) = w.as_mut() else { break 'ops };
                log(&rec, &net, side, AppEv::FlushCalled);
                match poll_fn(|cx| Pin::new(&mut *wh).poll_flush(cx)).await {
                    Ok(()) => log(&rec, &net, side, AppEv::FlushOk),
                    Err(e) => {
                        log(&rec, &net, side, AppEv::FlushErr(e.to_string()));
                        break 'ops;
                    }
                }
            }
            WOp::Shutdown => {
                let Some(wh) = w.as_mut() else { break 'ops };
                log(&rec, &net, side, AppEv::ShutdownCalled);
                match poll_fn(|cx| Pin::new(&mut *wh).poll_shutdown(cx)).await {
                    Ok(()) => log(&rec, &net, side, AppEv::ShutdownOk),
                    Err(e) => {
                        log(&rec, &net, side, AppEv::ShutdownErr(e.to_string()));
                        break 'ops;
                    }
                }
            }
            WOp::Drop => {
                if w.take().is_some() {
                    log(&rec, &net, side, AppEv::WriterDropped);
                }
            }
            WOp::Hold => hold_it = true,
            WOp::ProbeAfterDeath => {
                let dead = wait_all_dead().await;
                log(&rec, &net, side, AppEv::ProbePhase { dead });
                let Some(wh) = w.as_mut() else { break 'ops };
                let one = [coded(pos, salt)];
                match poll_fn(|cx| Pin::new(&mut *wh).poll_write(cx, &one)).await {
                    Ok(k) => {
                        rec.lock().accepted[idx(side)] += k as u64;
                        log(&rec, &net, side, AppEv::WriteAccepted { off: pos, n: k });
                        pos += k as u64;
                    }
                    Err(e) => log(&rec, &net, side, AppEv::WriteErr(e.to_string())),
                }
                log(&rec, &net, side, AppEv::FlushCalled);
                match poll_fn(|cx| Pin::new(&mut *wh).poll_flush(cx)).await {
                    Ok(()) => log(&rec, &net, side, AppEv::FlushOk),
                    Err(e) => log(&rec, &net, side, AppEv::FlushErr(e.to_string())),
                }
                log(&rec, &net, side, AppEv::ShutdownCalled);
                match poll_fn(|cx| Pin::new(&mut *wh).poll_shutdown(cx)).await {
                    Ok(()) => log(&rec, &net, side, AppEv::ShutdownOk),
                    Err(e) => log(&rec, &net, side, AppEv::ShutdownErr(e.to_string())),
                }
            }
            WOp::WaitRead(n) => {
                let notify = rec.lock().read_progress[idx(side)].clone();
                loop {
                    let fut = notify.notified();
                    {
                        let g = rec.lock();
                        if g.read[idx(side)] - g.cycle_read_base[idx(side)] >= n || g.reader_done[idx(side)] {
                            break;
                        }
                    }
                    fut.await;
                }
            }
        }
    }
    rec.lock().writer_done[idx(side)] = true;
    log(&rec, &net, side, AppEv::WriterScriptDone);
    if hold_it && w.is_some() {
        hold.notified().await;
    }
    if w.take().is_some() {
        log(&rec, &net, side, AppEv::WriterDropped);
    }
}

pub async fn run_reader(mut r: Option<UtpStreamReadHalf>, script: Vec<ROp>, side: Side, rec: Rec, net: Arc<SimNet>, salt: u8, hold: Arc<tokio::sync::Notify>) {
    let mut pos: u64 = 0;
    let mut hold_it = false;
    let mut ended = false;
    'ops: for op in script {
        let (target, bufsz) = match op {
            ROp::ReadToEof(b) => (u64::MAX, b),
            ROp::ReadN(n, b) => (n as u64, b),
            ROp::PauseMs(ms) => {
                tokio::time::sleep(Duration::from_millis(ms)).await;
                continue;
            }
            ROp::Drop => {
                if r.take().is_some() {
                    log(&rec, &net, side, AppEv::ReaderDropped);
                }
                continue;
            }
            ROp::Hold => {
                hold_it = true;
                continue;
            }
            ROp::ProbeAfterDeath => {
                let dead = wait_all_dead().await;
                log(&rec, &net, side, AppEv::ProbePhase { dead });
                let Some(rh) = r.as_mut() else { continue };
                let mut b = [0u8; 16];
                let res = poll_fn(|cx| {
                    let mut rb = ReadBuf::new(&mut b);
                    match Pin::new(&mut *rh).poll_read(cx, &mut rb) {
                        Poll::Pending => Poll::Pending,
                        Poll::Ready(Ok(())) => Poll::Ready(Ok(rb.filled().len())),
                        Poll::Ready(Err(e)) => Poll::Ready(Err(e)),
                    }
                })
                .await;
                match res {
                    Ok(0) => log(&rec, &net, side, AppEv::ReadEof { at: pos }),
                    Ok(n) => {
                        rec.lock().read[idx(side)] += n as u64;
                        log(&rec, &net, side, AppEv::ReadGot { off: pos, n, ok: true, first_bad: None });
                        pos += n as u64;
                    }
                    Err(e) => log(&rec, &net, side, AppEv::ReadErr(e.to_string())),
                }
                continue;
            }
        };
        if ended {
            continue;
        }
        let mut buf = vec![0u8; bufsz.max(1)];
        while pos < target {
            let Some(rh) = r.as_mut() else { break 'ops };
            let mut was_pending = false;
            let res = poll_fn(|cx| {
                let mut rb = ReadBuf::new(&mut buf);
                match Pin::new(&mut *rh).poll_read(cx, &mut rb) {
                    Poll::Pending => {
                        if !was_pending {
                            was_pending = true;
                            log(&rec, &net, side, AppEv::ReadPending);
                        }
                        Poll::Pending
                    }
                    Poll::Ready(Ok(())) => Poll::Ready(Ok(rb.filled().len())),
                    Poll::Ready(Err(e)) => Poll::Ready(Err(e)),
                }
            })
            .await;
            match res {
                Ok(0) => {
                    log(&rec, &net, side, AppEv::ReadEof { at: pos });
                    ended = true;
                    break;
                }
                Ok(n) => {
                    let mut first_bad = None;
                    for i in 0..n {
                        if buf[i] != coded(pos + i as u64, salt) {
                            first_bad = Some(pos + i as u64);
                            break;
                        }
                    }
                    {
                        let mut g = rec.lock();
                        g.read[idx(side)] += n as u64;
                        g.read_progress[idx(side)].notify_waiters();
                    }
                    log(&rec, &net, side, AppEv::ReadGot { off: pos, n, ok: first_bad.is_none(), first_bad });
                    pos += n as u64;
                }
                Err(e) => {
                    log(&rec, &net, side, AppEv::ReadErr(e.to_string()));
                    ended = true;
                    break;
                }
            }
        }
    }
    {
        let mut g = rec.lock();
        g.reader_done[idx(side)] = true;
        g.read_progress[idx(side)].notify_waiters();
    }
    log(&rec, &net, side, AppEv::ReaderScriptDone);
    if hold_it && r.is_some() {
        hold.notified().await;
    }
    if r.take().is_some() {
        log(&rec, &net, side, AppEv::ReaderDropped);
    }
}

/// Abort-type deviation applied at one send index (C03 / C08).
#[derive(Clone, Debug, Serialize, Deserialize, PartialEq)]
pub enum Abort {
    None,
    /// the network dies: every datagram with index >= k is lost, both ways
    CutAfter(usize),
    /// an ST_RESET for the connection arrives at side (true = A) when send k happens
    ResetTo(usize, bool),
    /// the socket's cancellation token fires when send k happens (true = A's socket)
    CancelAt(usize, bool),
}

#[derive(Clone, Debug, Default, Serialize)]
pub struct RunLog {
    pub wire: Vec<WireEventLite>,
    pub app: Vec<AppEvent>,
    pub end_us: u64,
    /// all four application tasks finished before the watchdog
    pub apps_finished: bool,
    pub watchdog_fired: bool,
    /// a task kept the runtime busy at one virtual instant until the spin limit (sim::SPIN_LIMIT)
    pub livelock: bool,
    /// which application tasks were unfinished when the watchdog fired
    pub stuck: Vec<String>,
    /// virtual time at which the apps were all finished
    pub apps_done_us: u64,
    /// (t_us, live connection objects) sampled when it changed after the apps finished
    pub live_after: Vec<(u64, usize)>,
    pub live_at_end: usize,
    pub streams_at_end: [usize; 2],
    pub max_streams_seen: [usize; 2],
    pub accepted: [u64; 2],
    pub read: [u64; 2],
    pub panicked: Option<String>,
    pub trace_hash: u64,
    pub n_sends: usize,
    pub delivered: Vec<(u64, usize)>,
    /// (t_us, created?, owner is A, conn_id_send) of connection objects
    pub lifecycle: Vec<(u64, bool, bool, u16)>,
}

/// WireEvent without the raw bytes (payload bytes kept only for ST_DATA).
#[derive(Clone, Debug, Serialize)]
pub struct WireEventLite {
    pub k: usize,
    pub t_us: u64,
    pub from_a: bool,
    pub ptype: u8,
    pub conn_id: u16,
    pub seq: u16,
    pub ack: u16,
    pub wnd: u32,
    pub sack: Option<(Vec<u8>, usize)>,
    pub len: usize,
    pub payload: Vec<u8>,
    pub fate: Fate,
    pub path_lost: bool,
    pub rejected: bool,
    pub injected: bool,
    pub parse_ok: bool,
}

pub fn lite(w: &WireEvent, addr_a: SocketAddr) -> WireEventLite {
    let (ptype, conn_id, seq, ack, wnd, sack, hl) = match &w.hdr {
        Some(h) => (h.ptype, h.conn_id, h.seq, h.ack, h.wnd, h.sack.map(|(m, l)| (m.to_vec(), l)), h.header_len),
        None => (255, 0, 0, 0, 0, None, w.bytes.len()),
    };
    WireEventLite {
        k: w.k,
        t_us: w.t_us,
        from_a: w.from == addr_a,
        ptype,
        conn_id,
        seq,
        ack,
        wnd,
        sack,
        len: w.bytes.len(),
        payload: w.bytes[hl.min(w.bytes.len())..].to_vec(),
        fate: w.fate,
        path_lost: w.path_lost,
        rejected: w.rejected,
        injected: w.injected,
        parse_ok: w.hdr.is_some(),
    }
}

pub fn build_runtime(seed: u64) -> tokio::runtime::Runtime {
    let mut s = [0u8; 32];
    s[..8].copy_from_slice(&seed.to_le_bytes());
    s[8..16].copy_from_slice(&seed.wrapping_mul(0x9E3779B97F4A7C15).to_le_bytes());
    tokio::runtime::Builder::new_current_thread()
        .enable_time()
        .start_paused(true)
        .rng_seed(tokio::runtime::RngSeed::from_bytes(&s))
        .build()
        .expect("runtime")
}

/// Executes one scenario under one fault plan to completion. Deterministic.
pub fn run(scn: &Scenario, plan: &[(usize, Fate)], abort: &Abort) -> RunLog {
    librqbit_utp::verif::gauges_reset();
    crate::duo::sim::spin_reset();
    let describe = || crate::duo::explore::replay_json(scn, &plan.to_vec(), abort);
    let _guard = crate::common::RunGuard::new(&describe);
    let rt = build_runtime(scn.rng_seed);
    let res = std::panic::catch_unwind(std::panic::AssertUnwindSafe(|| rt.block_on(run_async(scn, plan, abort))));
    let mut log = match res {
        Ok(l) => l,
        Err(p) => {
            let msg = p
                .downcast_ref::<String>()
                .cloned()
                .or_else(|| p.downcast_ref::<&str>().map(|s| s.to_string()))
                .unwrap_or_else(|| "panic".into());
            RunLog { panicked: Some(msg), ..Default::default() }
        }
    };
    drop(rt);
    crate::duo::sim::spin_disarm();
    log.livelock = crate::duo::sim::spin_tripped();
    log
}

async fn run_async(scn: &Scenario, plan: &[(usize, Fate)], abort: &Abort) -> RunLog {
    let addr_a = scn.addr_a();
    let addr_b = scn.addr_b();
    let tok_a = CancellationToken::new();
    let tok_b = CancellationToken::new();
    let mut triggers = Triggers::default();
    match abort {
        Abort::None => {}
        Abort::CutAfter(k) => triggers.cut_from = Some(*k),
        Abort::CancelAt(k, a) => triggers.cancel_at = Some((*k, if *a { tok_a.clone() } else { tok_b.clone() })),
        Abort::ResetTo(..) => {} // needs connection ids: installed below once known
    }
    let path = PathCfg { latency_us: scn.latency_us, blackhole_above: scn.blackhole_above, emsgsize_above: scn.emsgsize_above };
    let net = SimNet::new(plan, path, triggers);
    let net_task = tokio::spawn(net.clone().run());
    let rec: Rec = Arc::new(Mutex::new(Recorder::default()));

    let sa = UtpSocket::new_with_opts(net.transport(addr_a), VEnv::new(&scn.a.randoms), scn.a.opts(tok_a.clone())).expect("socket a");
    let sb = UtpSocket::new_with_opts(net.transport(addr_b), VEnv::new(&scn.b.randoms), scn.b.opts(tok_b.clone())).expect("socket b");

    if let Abort::ResetTo(k, to_a) = abort {
        // connection ids are determined by the scripted randomness: A's first connection id c:
        // A receives on c, sends on c+1; B receives on c+1, sends on c.
        let c = scn.a.randoms[0];
        let (from, to, cid) = if *to_a { (addr_b, addr_a, c) } else { (addr_a, addr_b, c.wrapping_add(1)) };
        let mut b = vec![0u8; 20];
        b[0] = (3 << 4) | 1;
        b[2..4].copy_from_slice(&cid.to_be_bytes());
        net.add_inject(*k, from, to, b);
    }

    let hold = Arc::new(tokio::sync::Notify::new());
    let horizon = Duration::from_secs(scn.horizon_s);

    let t0 = tokio::time::Instant::now();
    let body = async {
        let mut panic_msg = None;
        for cycle in 0..scn.cycles.max(1) {
            if scn.cycles > 1 {
                log(&rec, &net, Side::A, AppEv::CycleStart(cycle));
            }
            let acc = {
                let sb = sb.clone();
                tokio::spawn(async move { sb.accept().await })
            };
            let con = if scn.cycles > 1 {
                match tokio::time::timeout(Duration::from_secs(15), sa.connect(addr_b)).await {
                    Ok(r) => r.map_err(|e| e.to_string()),
                    Err(_) => Err("connect timed out after 15 s".to_string()),
                }
            } else {
                sa.connect(addr_b).await.map_err(|e| e.to_string())
            };
            let stream_a = match con {
                Ok(s) => {
                    log(&rec, &net, Side::A, AppEv::Connected);
                    Some(s)
                }
                Err(e) => {
                    log(&rec, &net, Side::A, AppEv::ConnectErr(e));
                    None
                }
            };
            let stream_b = if stream_a.is_some() {
                match acc.await {
                    Ok(Ok(s)) => {
                        log(&rec, &net, Side::B, AppEv::Accepted);
                        Some(s)
                    }
                    Ok(Err(e)) => {
                        log(&rec, &net, Side::B, AppEv::AcceptErr(e.to_string()));
                        None
                    }
                    Err(e) => {
                        log(&rec, &net, Side::B, AppEv::AcceptErr(format!("join: {e}")));
                        None
                    }
                }
            } else {
                acc.abort();
                None
            };
            {
                let mut g = rec.lock();
                g.reader_done = [false; 2];
                g.writer_done = [false; 2];
                g.cycle_read_base = g.read;
            }
            let mut handles = vec![];
            if let Some(s) = stream_a {
                let (r, w) = s.split();
                handles.push(tokio::spawn(run_writer(Some(w), scn.app_a.writer.clone(), Side::A, rec.clone(), net.clone(), salt_of(Side::A), hold.clone())));
                handles.push(tokio::spawn(run_reader(Some(r), scn.app_a.reader.clone(), Side::A, rec.clone(), net.clone(), salt_of(other(Side::A)), hold.clone())));
            }
            if let Some(s) = stream_b {
                let (r, w) = s.split();
                handles.push(tokio::spawn(run_writer(Some(w), scn.app_b.writer.clone(), Side::B, rec.clone(), net.clone(), salt_of(Side::B), hold.clone())));
                handles.push(tokio::spawn(run_reader(Some(r), scn.app_b.reader.clone(), Side::B, rec.clone(), net.clone(), salt_of(other(Side::B)), hold.clone())));
            }
            for h in handles {
                if let Err(e) = h.await {
                    if e.is_panic() {
                        panic_msg = Some(format!("application task panicked: {e}"));
                    }
                }
            }
            if cycle + 1 < scn.cycles {
                // the slot has to be free again within the release bound
                let mut live = librqbit_utp::verif::live_vsocks().len();
                let deadline = tokio::time::Instant::now() + Duration::from_micros(RELEASE_BOUND_US);
                while live > 0 && tokio::time::Instant::now() < deadline {
                    tokio::time::sleep(Duration::from_millis(50)).await;
                    live = librqbit_utp::verif::live_vsocks().len();
                }
                if live > 0 {
                    log(&rec, &net, Side::A, AppEv::CycleLeak { live });
                }
            }
        }
        panic_msg
    };

    let mut out = RunLog::default();
    let mut app_panic = None;
    let horizon = horizon * scn.cycles.max(1) as u32;
    match tokio::time::timeout(horizon, body).await {
        Ok(p) => {
            out.apps_finished = true;
            app_panic = p;
        }
        Err(_) => {
            out.watchdog_fired = true;
            let g = rec.lock();
            for (i, n) in ["A", "B"].iter().enumerate() {
                if !g.writer_done[i] {
                    let last = g.events.iter().rev().find(|e| idx(e.side) == i && matches!(e.ev, AppEv::WritePending | AppEv::FlushCalled | AppEv::ShutdownCalled | AppEv::WriteAccepted { .. } | AppEv::Connected | AppEv::Accepted));
                    out.stuck.push(format!("{n} writer after {:?} ({} bytes accepted)", last.map(|e| &e.ev), g.accepted[i]));
                }
                if !g.reader_done[i] {
                    out.stuck.push(format!("{n} reader parked at {} bytes", g.read[i]));
                }
            }
        }
    }
    out.apps_done_us = net.now_us();
    // release held halves, then watch the connections wind down (C08): sample the live counter
    hold.notify_waiters();
    let settle_deadline = tokio::time::Instant::now() + Duration::from_secs(SETTLE_S);
    let mut last = usize::MAX;
    loop {
        let live = librqbit_utp::verif::live_vsocks().len();
        if live != last {
            out.live_after.push((net.now_us(), live));
            last = live;
        }
        if tokio::time::Instant::now() >= settle_deadline {
            break;
        }
        if live == 0 && out.apps_finished {
            // stay a little longer to observe silence
            tokio::time::sleep(Duration::from_secs(QUIET_S)).await;
            let live2 = librqbit_utp::verif::live_vsocks().len();
            if live2 != 0 {
                out.live_after.push((net.now_us(), live2));
            }
            break;
        }
        tokio::time::sleep(Duration::from_millis(50)).await;
    }
    out.live_at_end = librqbit_utp::verif::live_vsocks().len();
    out.streams_at_end = [
        librqbit_utp::verif::gauge(addr_a).map(|g| g.streams).unwrap_or(0),
        librqbit_utp::verif::gauge(addr_b).map(|g| g.streams).unwrap_or(0),
    ];
    out.max_streams_seen = [
        librqbit_utp::verif::gauge_max_streams_seen(addr_a),
        librqbit_utp::verif::gauge_max_streams_seen(addr_b),
    ];
    out.end_us = net.now_us();
    net_task.abort();
    let (wire, delivered) = net.take_log();
    out.n_sends = wire.iter().filter(|w| w.k != usize::MAX).count();
    out.wire = wire.iter().map(|w| lite(w, addr_a)).collect();
    out.delivered = delivered;
    {
        let r = rec.lock();
        out.app = r.events.clone();
        out.accepted = r.accepted;
        out.read = r.read;
    }
    out.panicked = app_panic;
    out.lifecycle = librqbit_utp::verif::vsock_lifecycle()
        .into_iter()
        .map(|(t, created, remote, cid)| (t.saturating_duration_since(t0.into_std()).as_micros() as u64, created, remote == addr_b, cid))
        .collect();
    out.trace_hash = trace_hash(&out);
    drop(sa);
    drop(sb);
    out
}

/// bound for "the background task ends / the slot is released within a bounded time" after the
/// application let go: inactivity timeout (configured 3 s in C08 scenarios) + RTO back-off sum for 5
/// retransmissions (6.2 s) + 1 s final chance + 1 s slack
pub const RELEASE_BOUND_US: u64 = 3_000_000 + 6_200_000 + 1_000_000 + 1_000_000;

/// seconds of virtual time a run may take to wind down after the applications finished
pub const SETTLE_S: u64 = 120;
/// seconds of virtual time observed after the last connection object disappeared
pub const QUIET_S: u64 = 12;

pub fn trace_hash(l: &RunLog) -> u64 {
    use std::hash::{Hash, Hasher};
    let mut h = rustc_hash::FxHasher::default();
    for w in &l.wire {
        (w.k, w.t_us, w.from_a, w.ptype, w.conn_id, w.seq, w.ack, w.wnd, w.len, &w.sack, w.rejected).hash(&mut h);
    }
    for a in &l.app {
        (a.t_us, a.side, format!("{:?}", a.ev)).hash(&mut h);
    }
    h.finish()
}
