//! C16: the RTO estimator, every sample/timeout sequence up to a depth, against an exact
//! rational-arithmetic RFC 6298 reference.

use librqbit_utp::verif::RttEstimator;
use rayon::prelude::*;
use serde_json::{json, Value};
use std::time::Duration;

use crate::common::*;

const MIN_RTO_NS: u128 = 200_000_000;
const MAX_RTO_NS: u128 = 60_000_000_000;
const G_NS: u128 = 10_000_000; // clock granularity
const TOL_NS: u128 = 100; // accumulated floor-rounding of the integer implementation

#[derive(Clone, Copy, Debug)]
enum Ev {
    Sample(u64), // nanoseconds
    Timeout,
}

fn alphabet() -> Vec<Ev> {
    vec![
        Ev::Sample(0),
        Ev::Sample(1),
        Ev::Sample(1_000_000),
        Ev::Sample(199_000_000),
        Ev::Sample(200_000_000),
        Ev::Sample(3_000_000_000),
        Ev::Sample(61_000_000_000),
        Ev::Sample(7_200_000_000_000),
        Ev::Timeout,
    ]
}

/// Exact reference: srtt and rttvar as rationals num / 2^shift (nanoseconds).
#[derive(Clone, Copy, Debug)]
struct RefState {
    has_sample: bool,
    srtt_num: u128,
    var_num: u128,
    shift: u32,
    min_sample: u128,
    max_sample: u128,
}

impl RefState {
    fn new() -> Self {
        RefState { has_sample: false, srtt_num: 0, var_num: 0, shift: 0, min_sample: u128::MAX, max_sample: 0 }
    }
    fn sample(&mut self, r: u128) {
        self.min_sample = self.min_sample.min(r);
        self.max_sample = self.max_sample.max(r);
        if !self.has_sample {
            // SRTT <- R, RTTVAR <- R/2
            self.has_sample = true;
            self.shift = 1;
            self.srtt_num = r * 2;
            self.var_num = r;
        } else {
            // RTTVAR <- 3/4 RTTVAR + 1/4 |SRTT - R| ; SRTT <- 7/8 SRTT + 1/8 R  (common denominator x8)
            let r_scaled = r << self.shift;
            let diff = if self.srtt_num > r_scaled { self.srtt_num - r_scaled } else { r_scaled - self.srtt_num };
            let var8 = self.var_num * 6 + diff * 2;
            let srtt8 = self.srtt_num * 7 + r_scaled;
            self.shift += 3;
            self.var_num = var8;
            self.srtt_num = srtt8;
            // keep numbers small: drop common factors of two
            while self.shift > 0 && self.var_num % 2 == 0 && self.srtt_num % 2 == 0 {
                self.var_num /= 2;
                self.srtt_num /= 2;
                self.shift -= 1;
            }
            // long histories: cap the denominator at 2^60 (floor; loses < 2^-60 ns per step, the
            // recurrences are contractions so the total stays below 2^-57 ns)
            if self.shift > 60 {
                let d = self.shift - 60;
                self.var_num >>= d;
                self.srtt_num >>= d;
                self.shift = 60;
            }
        }
    }
    fn srtt_ns(&self) -> u128 {
        self.srtt_num >> self.shift
    }
    /// un-clamped RTO = SRTT + max(G, 4*RTTVAR), floor ns
    fn rto_raw_ns(&self) -> u128 {
        let k = (self.var_num * 4).max(G_NS << self.shift);
        (self.srtt_num + k) >> self.shift
    }
}

fn clamp(x: u128) -> u128 {
    x.clamp(MIN_RTO_NS, MAX_RTO_NS)
}

struct Walk {
    transitions: u64,
    leaves: u64,
    distinct: std::collections::HashSet<u64>,
    violation: Option<(String, String, Vec<usize>)>,
    outcomes: std::collections::BTreeSet<u8>,
}

fn step(
    est: &mut RttEstimator,
    rf: &mut RefState,
    ev: Ev,
) -> Result<u8, (String, String)> {
    let before_rto = est.retransmission_timeout().as_nanos();
    match ev {
        Ev::Sample(ns) => {
            let r = std::panic::catch_unwind(std::panic::AssertUnwindSafe(|| est.sample(Duration::from_nanos(ns))));
            if r.is_err() {
                return Err(("rtte/panic".into(), format!("sample({ns} ns) panicked")));
            }
            rf.sample(ns as u128);
            let rto = est.retransmission_timeout().as_nanos();
            let srtt = est.roundtrip_time().as_nanos();
            let want = clamp(rf.rto_raw_ns());
            if rto.abs_diff(want) > TOL_NS {
                return Err((
                    "rtte/rto-after-sample".into(),
                    format!("after sample {ns} ns: RTO {rto} ns, reference clamp(srtt+max(G,4*rttvar)) = {want} ns"),
                ));
            }
            if srtt.abs_diff(rf.srtt_ns()) > TOL_NS {
                return Err(("rtte/srtt".into(), format!("srtt {srtt} ns, reference {} ns", rf.srtt_ns())));
            }
            if srtt < rf.min_sample || srtt > rf.max_sample {
                return Err((
                    "rtte/srtt-outside-samples".into(),
                    format!("srtt {srtt} ns outside [{}, {}]", rf.min_sample, rf.max_sample),
                ));
            }
        }
        Ev::Timeout => {
            let r = std::panic::catch_unwind(std::panic::AssertUnwindSafe(|| est.on_rto_timeout()));
            if r.is_err() {
                return Err(("rtte/panic".into(), "on_rto_timeout panicked".into()));
            }
            let rto = est.retransmission_timeout().as_nanos();
            let want = clamp(before_rto * 2);
            if rto != want {
                return Err((
                    "rtte/backoff-doubling".into(),
                    format!("timeout: RTO went {before_rto} -> {rto} ns, expected {want} ns"),
                ));
            }
        }
    }
    let rto = est.retransmission_timeout().as_nanos();
    if !(MIN_RTO_NS..=MAX_RTO_NS).contains(&rto) {
        return Err(("rtte/rto-out-of-bounds".into(), format!("RTO {rto} ns outside [200 ms, 60 s]")));
    }
    Ok(if rto == MIN_RTO_NS { 0 } else if rto == MAX_RTO_NS { 2 } else { 1 })
}

fn dfs(w: &mut Walk, alpha: &[Ev], est: RttEstimator, rf: RefState, path: &mut Vec<usize>, depth: usize) {
    if w.violation.is_some() {
        return;
    }
    if depth == 0 {
        w.leaves += 1;
        return;
    }
    for (i, ev) in alpha.iter().enumerate() {
        let mut e2 = est;
        let mut r2 = rf;
        w.transitions += 1;
        path.push(i);
        match step(&mut e2, &mut r2, *ev) {
            Ok(o) => {
                w.outcomes.insert(o);
                if w.distinct.len() < 4_000_000 {
                    w.distinct.insert(hash64(&e2.verif_state()));
                }
                dfs(w, alpha, e2, r2, path, depth - 1);
            }
            Err((sig, msg)) => {
                if w.violation.is_none() {
                    w.violation = Some((sig, msg, path.clone()));
                }
            }
        }
        path.pop();
        if w.violation.is_some() {
            return;
        }
    }
}

pub fn run(ctx: &Ctx) -> Outcome {
    let alpha = alphabet();
    let depth = ctx.tier.pick(9usize, 10usize);
    // split on the first two events for parallelism
    let prefixes: Vec<(usize, usize)> = (0..alpha.len()).flat_map(|a| (0..alpha.len()).map(move |b| (a, b))).collect();
    let walks: Vec<Walk> = prefixes
        .par_iter()
        .map(|&(a, b)| {
            let mut w = Walk {
                transitions: 0,
                leaves: 0,
                distinct: Default::default(),
                violation: None,
                outcomes: Default::default(),
            };
            let mut est = RttEstimator::default();
            let mut rf = RefState::new();
            let mut path = vec![];
            for i in [a, b] {
                path.push(i);
                w.transitions += 1;
                match step(&mut est, &mut rf, alpha[i]) {
                    Ok(o) => {
                        w.outcomes.insert(o);
                        w.distinct.insert(hash64(&est.verif_state()));
                    }
                    Err((sig, msg)) => {
                        w.violation = Some((sig, msg, path.clone()));
                        return w;
                    }
                }
            }
            dfs(&mut w, &alpha, est, rf, &mut path, depth - 2);
            w
        })
        .collect();
    let mut out = Outcome::default();
    let mut part = Part::mc("rtte-sequences");
    let mut all: std::collections::HashSet<u64> = Default::default();
    let mut outcomes = std::collections::BTreeSet::new();
    let mut capped = false;
    for w in &walks {
        part.transitions += w.transitions;
        capped |= w.distinct.len() >= 4_000_000;
        all.extend(w.distinct.iter().copied());
        outcomes.extend(w.outcomes.iter().copied());
    }
    part.states = all.len() as u64;
    part.distinct_outcomes = outcomes.len() as u64;
    part.bound = format!("all sequences of length <= {depth} over {} events (8 RTT samples 0 ns..2 h, timeout)", alpha.len());
    if capped {
        part.caps_hit.push("distinct-state counting capped at 4M per worker (exploration itself not capped)".into());
    }
    part.samples.push(json!(["sample(3 s)", "timeout", "timeout", "sample(1 ms)"]));
    part.samples.push(json!(["sample(2 h)", "sample(0)", "timeout"]));
    // shortest violation
    let mut best: Option<&(String, String, Vec<usize>)> = None;
    for w in &walks {
        if let Some(v) = &w.violation {
            if best.map(|b| v.2.len() < b.2.len()).unwrap_or(true) {
                best = Some(v);
            }
        }
    }
    if let Some((sig, msg, path)) = best {
        out.violations.push(Violation {
            property: "C16".into(),
            monitor: "rtte-reference".into(),
            signature: sig.clone(),
            detail: format!("{msg}; events={:?}", path.iter().map(|i| format!("{:?}", alpha[*i])).collect::<Vec<_>>()),
            replay: json!({"engine":"exhaust","check":"rtte","events": path}),
        });
    }
    if outcomes.len() < 3 {
        machinery_error("rtte exploration vacuous: RTO never reached both clamps and the interior");
    }
    out.parts.push(part);
    run_lengths(ctx, &mut out);
    out.rule = "C16: every event sequence up to the depth; distinct = distinct estimator states (phase, rto, srtt, rttvar)".into();
    out.assumptions.push("integer (floor) rounding of the implementation may deviate from exact rational arithmetic by <= 100 ns".into());
    out
}

/// Long, steady histories (a low variance needs many similar samples; a capped backoff needs many
/// timeouts): every history of the shape e1^n1 e2^n2 e3^n3, n_i <= N, over a second alphabet.
fn run_lengths(ctx: &Ctx, out: &mut Outcome) {
    let alpha: Vec<Ev> = vec![
        Ev::Sample(300_000_000),
        Ev::Sample(301_000_000),
        Ev::Sample(250_000_000),
        Ev::Sample(1_000_000_000),
        Ev::Sample(20_000_000),
        Ev::Sample(190_000_000),
        Ev::Sample(59_000_000_000),
        Ev::Timeout,
    ];
    let n_max = ctx.tier.pick(24usize, 48usize);
    let firsts: Vec<(usize, usize)> = (0..alpha.len()).flat_map(|a| (1..=n_max).map(move |n| (a, n))).collect();
    type Bad = (String, String, Vec<i64>);
    let results: Vec<(u64, std::collections::HashSet<u64>, std::collections::BTreeSet<u8>, Option<Bad>)> = firsts
        .par_iter()
        .map(|&(a, n1)| {
            let mut transitions = 0u64;
            let mut distinct = std::collections::HashSet::new();
            let mut outcomes = std::collections::BTreeSet::new();
            let code = |e: Ev| match e {
                Ev::Sample(ns) => ns as i64,
                Ev::Timeout => -1,
            };
            let mut est = RttEstimator::default();
            let mut rf = RefState::new();
            let mut hist: Vec<i64> = vec![];
            for _ in 0..n1 {
                hist.push(code(alpha[a]));
                transitions += 1;
                match step(&mut est, &mut rf, alpha[a]) {
                    Ok(o) => {
                        outcomes.insert(o);
                    }
                    Err((s, m)) => return (transitions, distinct, outcomes, Some((s, m, hist))),
                }
            }
            for b in 0..alpha.len() {
                if b == a {
                    continue;
                }
                let (mut e2, mut r2, mut h2) = (est, rf, hist.clone());
                for _ in 1..=n_max {
                    h2.push(code(alpha[b]));
                    transitions += 1;
                    match step(&mut e2, &mut r2, alpha[b]) {
                        Ok(o) => {
                            outcomes.insert(o);
                        }
                        Err((s, m)) => return (transitions, distinct, outcomes, Some((s, m, h2))),
                    }
                    for c in 0..alpha.len() {
                        if c == b {
                            continue;
                        }
                        let (mut e3, mut r3, mut h3) = (e2, r2, h2.clone());
                        for _ in 1..=n_max {
                            h3.push(code(alpha[c]));
                            transitions += 1;
                            match step(&mut e3, &mut r3, alpha[c]) {
                                Ok(o) => {
                                    outcomes.insert(o);
                                    distinct.insert(hash64(&e3.verif_state()));
                                }
                                Err((s, m)) => return (transitions, distinct, outcomes, Some((s, m, h3))),
                            }
                        }
                    }
                }
            }
            (transitions, distinct, outcomes, None)
        })
        .collect();
    let mut part = Part::mc("rtte-run-lengths");
    let mut all: std::collections::HashSet<u64> = Default::default();
    let mut outcomes = std::collections::BTreeSet::new();
    let mut best: Option<Bad> = None;
    for (t, d, o, bad) in results {
        part.transitions += t;
        all.extend(d);
        outcomes.extend(o);
        if let Some(b) = bad {
            if best.as_ref().map(|x| b.2.len() < x.2.len()).unwrap_or(true) {
                best = Some(b);
            }
        }
    }
    part.states = all.len() as u64;
    part.distinct_outcomes = outcomes.len() as u64;
    part.bound = format!("all histories e1^n1 e2^n2 e3^n3 with 1 <= n_i <= {n_max} over {} events (samples 20 ms..59 s around the 200 ms floor, timeout); every prefix checked", alpha.len());
    part.samples.push(json!({"history": "300 ms x 24, timeout x 9, 250 ms x 3"}));
    if let Some((sig, msg, hist)) = best {
        out.violations.push(Violation {
            property: "C16".into(),
            monitor: "rtte-reference".into(),
            signature: sig,
            detail: format!("{msg}; history of {} events (ns, -1 = timeout) = {:?}", hist.len(), hist),
            replay: json!({"engine":"exhaust","check":"rtte","explicit": hist}),
        });
    }
    out.parts.push(part);
}

pub fn replay(r: &Value) -> i32 {
    let alpha = alphabet();
    let mut est = RttEstimator::default();
    let mut rf = RefState::new();
    if let Some(list) = r["explicit"].as_array() {
        for x in list {
            let ev = match x.as_i64().unwrap_or(-1) {
                -1 => Ev::Timeout,
                ns => Ev::Sample(ns as u64),
            };
            let res = step(&mut est, &mut rf, ev);
            println!("{ev:?} -> rto={:?} rtt={:?} {:?}", est.retransmission_timeout(), est.roundtrip_time(), res);
            if let Err((sig, msg)) = res {
                println!("REPLAY-VIOLATION {sig}: {msg}");
                return 1;
            }
        }
        println!("REPLAY-OK");
        return 0;
    }
    for i in r["events"].as_array().cloned().unwrap_or_default() {
        let ev = alpha[i.as_u64().unwrap_or(0) as usize];
        let res = step(&mut est, &mut rf, ev);
        println!("{ev:?} -> rto={:?} rtt={:?} {:?}", est.retransmission_timeout(), est.roundtrip_time(), res);
        if let Err((sig, msg)) = res {
            println!("REPLAY-VIOLATION {sig}: {msg}");
            return 1;
        }
    }
    println!("REPLAY-OK");
    0
}
