//! C14 (a): the real `SegmentSizes` binary search for ALL link MTUs x both address families x ALL
//! true path payload limits, with the oracle "a probe succeeds iff its size fits the path".

use librqbit_utp::mtu::{SegmentSizes, SegmentSizesConfig};
use rayon::prelude::*;
use serde_json::json;

use crate::common::*;

struct R {
    cases: u64,
    ops: u64,
    bad: Option<(String, String, serde_json::Value)>,
    outcomes: std::collections::BTreeSet<u8>,
}

fn one(link_mtu: u16, ipv4: bool, p: u16, peer_payload: Option<usize>) -> Result<(u64, u8), (String, String)> {
    let mut ss = SegmentSizes::new(SegmentSizesConfig { is_ipv4: ipv4, link_mtu, ..Default::default() });
    let ceiling = ss.max_ss();
    let floor = ss.mss();
    if floor > ceiling {
        return Err(("segsizes/min-above-max".into(), format!("initial min {floor} > max {ceiling}")));
    }
    let ip = if ipv4 { 20 } else { 40 };
    if ceiling as u32 + ip + 8 + 20 > link_mtu.max(ip as u16 + 29) as u32 {
        return Err(("segsizes/ceiling-exceeds-link-mtu".into(), format!("ceiling {ceiling} + headers exceeds link MTU {link_mtu}")));
    }
    let range = (ceiling - floor) as u32;
    let max_probes = if range == 0 { 0 } else { 32 - range.leading_zeros() + 1 };
    let mut probes = 0u32;
    let mut ops = 0u64;
    for _ in 0..4000 {
        if let Some(pp) = peer_payload {
            if ops == 5 {
                // whatever sizes the peer uses: an incoming payload must not raise what we send above the link ceiling
                ss.on_payload_delivered(pp);
            }
        }
        let s = ss.next_segment_size();
        ops += 1;
        if s > ceiling {
            return Err((
                "segsizes/segment-exceeds-link-ceiling".into(),
                format!("next_segment_size() = {s} but the link MTU {link_mtu} ({}) allows at most {ceiling} bytes of payload{}", if ipv4 { "IPv4" } else { "IPv6" }, peer_payload.map(|p| format!(" (after a peer payload of {p} bytes)")).unwrap_or_default()),
            ));
        }
        if s > ss.max_ss() || ss.mss() > ss.max_ss() {
            return Err(("segsizes/min-above-max".into(), format!("segment {s}, min {}, max {}", ss.mss(), ss.max_ss())));
        }
        if s > ss.mss() {
            probes += 1;
            if s <= p {
                ss.on_payload_delivered(s as usize);
            } else {
                ss.on_probe_failed(s as usize);
            }
        } else {
            if s > p && peer_payload.is_none() {
                return Err(("segsizes/ordinary-segment-above-proven".into(), format!("ordinary segment of {s} bytes but only {p} fits the path and nothing larger was ever delivered")));
            }
            ss.on_payload_delivered(s as usize);
        }
        if !ss.is_probing() {
            break;
        }
    }
    if ss.is_probing() {
        return Err(("segsizes/does-not-converge".into(), format!("still probing after 4000 segments (link {link_mtu}, path {p})")));
    }
    if peer_payload.is_none() {
        let want = p.min(ceiling).max(floor);
        if ss.mss() != want {
            return Err(("segsizes/settles-on-wrong-size".into(), format!("link MTU {link_mtu} {}, path limit {p}: settled on {} bytes, the largest that fits is {want}", if ipv4 { "IPv4" } else { "IPv6" }, ss.mss())));
        }
        if probes > max_probes {
            return Err(("segsizes/too-many-probes".into(), format!("{probes} probes for a range of {range} (logarithmic bound {max_probes})")));
        }
    }
    Ok((ops, if probes == 0 { 0 } else if ss.mss() == ceiling { 1 } else { 2 }))
}

pub fn run(ctx: &Ctx) -> Outcome {
    let step = ctx.tier.pick(1usize, 1usize);
    let mut mtus: Vec<u16> = (49u16..=1500).step_by(step).collect();
    // beyond Ethernet: a grid up to the largest value the option accepts, plus the places where 16-bit
    // arithmetic on two sizes could wrap (sum of floor and ceiling around 65536) and other round numbers
    let jumbo_step = ctx.tier.pick(509usize, 61usize);
    mtus.extend((1501u16..=65535).step_by(jumbo_step));
    mtus.extend([9000u16, 16_383, 16_384, 16_385, 32_767, 32_768, 32_800, 33_000, 40_000, 65_000, 65_055, 65_056, 65_057, 65_534, 65_535]);
    mtus.sort();
    mtus.dedup();
    let results: Vec<R> = mtus
        .par_iter()
        .map(|&lm| {
            let mut r = R { cases: 0, ops: 0, bad: None, outcomes: Default::default() };
            for ipv4 in [true, false] {
                let ss = SegmentSizes::new(SegmentSizesConfig { is_ipv4: ipv4, link_mtu: lm, ..Default::default() });
                let (lo, hi) = (ss.mss(), ss.max_ss());
                // every path limit up to Ethernet size; above it about 48 evenly spaced ones and both ends
                let stride = if lm <= 1500 { 1 } else { ((hi - lo) as usize / 48).max(1) };
                let mut limits: Vec<u16> = (lo..=hi).step_by(stride).collect();
                limits.push(hi);
                limits.dedup();
                for p in limits {
                    r.cases += 1;
                    let res = std::panic::catch_unwind(|| one(lm, ipv4, p, None)).unwrap_or_else(|e| {
                        let msg = e.downcast_ref::<String>().cloned().or_else(|| e.downcast_ref::<&str>().map(|s| s.to_string())).unwrap_or_else(|| "panic".into());
                        Err(("segsizes/panic".into(), format!("link MTU {lm} {}, path limit {p}: panicked: {msg}", if ipv4 { "IPv4" } else { "IPv6" })))
                    });
                    match res {
                        Ok((ops, o)) => {
                            r.ops += ops;
                            r.outcomes.insert(o);
                        }
                        Err((sig, msg)) => {
                            if r.bad.is_none() {
                                r.bad = Some((sig, msg, json!({"engine":"exhaust","check":"segsizes","link_mtu": lm, "ipv4": ipv4, "path": p, "peer_payload": null})));
                            }
                        }
                    }
                }
                // peer payload sizes: below, between, above the link ceiling
                for pp in [1usize, lo as usize, hi as usize, hi as usize + 1, 2000, 16_364] {
                    for p in [lo, hi] {
                        r.cases += 1;
                        let res = std::panic::catch_unwind(|| one(lm, ipv4, p, Some(pp))).unwrap_or_else(|e| {
                            let msg = e.downcast_ref::<String>().cloned().or_else(|| e.downcast_ref::<&str>().map(|s| s.to_string())).unwrap_or_else(|| "panic".into());
                            Err(("segsizes/panic".into(), format!("link MTU {lm} {}, path limit {p}, peer payload {pp}: panicked: {msg}", if ipv4 { "IPv4" } else { "IPv6" })))
                        });
                        match res {
                            Ok((ops, _)) => r.ops += ops,
                            Err((sig, msg)) => {
                                if r.bad.is_none() {
                                    r.bad = Some((sig, msg, json!({"engine":"exhaust","check":"segsizes","link_mtu": lm, "ipv4": ipv4, "path": p, "peer_payload": pp})));
                                }
                            }
                        }
                    }
                }
            }
            r
        })
        .collect();
    let mut out = Outcome::default();
    let mut part = Part::mc("segment-sizes-sweep");
    let mut outcomes = std::collections::BTreeSet::new();
    let mut seen_sig = std::collections::BTreeSet::new();
    for r in results {
        part.states += r.cases;
        part.transitions += r.ops;
        outcomes.extend(r.outcomes);
        if let Some((sig, msg, rp)) = r.bad {
            if seen_sig.insert(sig.clone()) {
                out.violations.push(Violation { property: "C14".into(), monitor: "segment-sizes".into(), signature: sig, detail: msg, replay: rp });
            }
        }
    }
    part.distinct_outcomes = outcomes.len() as u64;
    part.bound = format!("all link MTUs 49..=1500 x {{IPv4, IPv6}} x every true path payload limit between the protocol minimum and the link ceiling; link MTUs 1501..=65535 in steps of {jumbo_step} plus 15 boundary values x about 48 path limits each; plus 6 peer payload sizes x 2 path limits per (MTU, family)").into();
    part.samples.push(json!({"link_mtu": 1500, "ipv4": true, "path_limit": 1000}));
    part.samples.push(json!({"link_mtu": 700, "ipv4": false, "path_limit": 600, "peer_payload": 2000}));
    out.parts.push(part);
    out
}

pub fn replay(r: &serde_json::Value) -> i32 {
    let lm = r["link_mtu"].as_u64().unwrap_or(1500) as u16;
    let ipv4 = r["ipv4"].as_bool().unwrap_or(true);
    let p = r["path"].as_u64().unwrap_or(0) as u16;
    let pp = r["peer_payload"].as_u64().map(|x| x as usize);
    match one(lm, ipv4, p, pp) {
        Ok(_) => {
            println!("REPLAY-OK");
            0
        }
        Err((sig, msg)) => {
            println!("REPLAY-VIOLATION {sig}: {msg}");
            1
        }
    }
}
