//! Scenario library ("small sharp drivers"): tiny MSS, tiny buffers, things forced to collide.

use super::scenario::*;

pub const MSS: usize = 10; // smallest MSS at which control packets can still carry a SACK extension

fn base(name: &str, a: AppScript, b: AppScript) -> Scenario {
    let mut ca = SockCfg::tiny(MSS);
    ca.randoms = vec![100, 1000];
    let mut cb = SockCfg::tiny(MSS);
    cb.randoms = vec![300, 2000];
    Scenario {
        name: name.into(),
        a: ca,
        b: cb,
        ipv6: false,
        latency_us: 10_000,
        blackhole_above: None,
        emsgsize_above: None,
        app_a: a,
        app_b: b,
        horizon_s: 20,
        rng_seed: 1,
        cycles: 1,
    }
}

fn app(w: Vec<WOp>, r: Vec<ROp>) -> AppScript {
    AppScript { writer: w, reader: r }
}

/// A sends, both close cleanly.
pub fn a2b_bulk() -> Scenario {
    base(
        "a2b-bulk",
        app(vec![WOp::Write(150), WOp::Shutdown], vec![ROp::ReadToEof(64)]),
        app(vec![], vec![ROp::ReadToEof(64)]),
    )
}

/// both directions at once
pub fn both_ways() -> Scenario {
    base(
        "both-ways",
        // a FIN closes both directions in uTP: each side shuts down only after it has read everything
        app(vec![WOp::Write(120), WOp::WaitRead(80), WOp::Shutdown], vec![ROp::ReadToEof(32)]),
        app(vec![WOp::Write(80), WOp::WaitRead(120), WOp::Shutdown], vec![ROp::ReadToEof(7)]),
    )
}

/// writer faster than reader, transfer larger than every buffer (rx 80, tx 40 -> 160)
pub fn slow_reader() -> Scenario {
    base(
        "slow-reader",
        app(vec![WOp::Write(300), WOp::Shutdown], vec![ROp::ReadToEof(64)]),
        app(vec![], vec![ROp::PauseMs(500), ROp::ReadN(100, 7), ROp::PauseMs(300), ROp::ReadToEof(33)]),
    )
}

/// small writes, Nagle on, flush in the middle
pub fn small_writes() -> Scenario {
    base(
        "small-writes",
        app(
            vec![WOp::Write(3), WOp::Write(4), WOp::Write(25), WOp::PauseMs(25), WOp::Write(1), WOp::Flush, WOp::Write(12), WOp::Shutdown],
            vec![ROp::ReadToEof(64)],
        ),
        app(vec![], vec![ROp::ReadToEof(5)]),
    )
}

/// same without Nagle
pub fn small_writes_nodelay() -> Scenario {
    let mut s = small_writes();
    s.name = "small-writes-nodelay".into();
    s.a.nagle = false;
    s.b.nagle = false;
    s
}

/// a trickle: 2 bytes every 30 ms without Nagle (each arrival falls inside the receiver's delayed-ACK
/// interval of the previous one), then a flush
pub fn paced_tiny_writes() -> Scenario {
    let mut w = vec![];
    for _ in 0..12 {
        w.push(WOp::Write(2));
        w.push(WOp::PauseMs(30));
    }
    w.push(WOp::Flush);
    w.push(WOp::Shutdown);
    let mut s = base("paced-tiny-writes", app(w, vec![ROp::ReadToEof(64)]), app(vec![], vec![ROp::ReadToEof(64)]));
    s.a.nagle = false;
    s.b.nagle = false;
    s
}

/// FIN right behind the data: both halves dropped immediately after the write
pub fn fin_behind_data() -> Scenario {
    base(
        "fin-behind-data",
        app(vec![WOp::Write(35), WOp::Drop], vec![ROp::Drop]),
        app(vec![], vec![ROp::ReadToEof(64)]),
    )
}

/// the close-by-drop finds the unsent bytes wrapped around the end of a small, non-growing TX ring
pub fn wrapped_drop_close() -> Scenario {
    let mut s = base(
        "wrapped-drop-close",
        app(vec![WOp::Write(30), WOp::PauseMs(100), WOp::Write(35), WOp::Drop], vec![ROp::Drop]),
        app(vec![], vec![ROp::ReadToEof(64)]),
    );
    s.a.tx_init = 4 * MSS;
    s.a.tx_max = 4 * MSS;
    s
}

/// the acceptor closes first (by dropping both halves): the connector is the passive closer and ends in
/// last-ack with nothing but the final-chance timer to bound its life once its send queue was emptied
pub fn acceptor_closes_first() -> Scenario {
    base(
        "acceptor-closes-first",
        app(vec![WOp::Write(30), WOp::WaitRead(20)], vec![ROp::ReadToEof(64)]),
        app(vec![WOp::WaitRead(30), WOp::Write(20), WOp::Drop], vec![ROp::ReadN(30, 64), ROp::Drop]),
    )
}

/// request / response
pub fn ping_pong() -> Scenario {
    base(
        "ping-pong",
        app(vec![WOp::Write(25), WOp::PauseMs(100), WOp::Write(25), WOp::WaitRead(40), WOp::Shutdown], vec![ROp::ReadToEof(64)]),
        app(vec![WOp::PauseMs(60), WOp::Write(40), WOp::WaitRead(50), WOp::Shutdown], vec![ROp::ReadToEof(64)]),
    )
}

/// tiny receive buffer (2 segments): zero windows all the time
pub fn tiny_rx() -> Scenario {
    let mut s = base(
        "tiny-rx",
        app(vec![WOp::Write(120), WOp::Shutdown], vec![ROp::ReadToEof(64)]),
        app(vec![], vec![ROp::PauseMs(100), ROp::ReadToEof(3)]),
    );
    s.b.rx_buf = 2 * MSS;
    s
}

/// no explicit shutdown: halves dropped at script end
pub fn drop_close() -> Scenario {
    base(
        "drop-close",
        app(vec![WOp::Write(60), WOp::WaitRead(20), WOp::Drop], vec![ROp::ReadN(20, 64)]),
        app(vec![WOp::Write(20), WOp::WaitRead(60), WOp::Drop], vec![ROp::ReadToEof(64)]),
    )
}

/// shutdown on a connection that has been idle for a while
pub fn idle_shutdown() -> Scenario {
    base(
        "idle-shutdown",
        app(vec![WOp::Write(30), WOp::PauseMs(300), WOp::Shutdown], vec![ROp::ReadToEof(64)]),
        app(vec![], vec![ROp::ReadToEof(64)]),
    )
}

/// One side shuts down at once while the other still has data on its way (uTP has no half-close: the
/// late side's writer is cut short by design, but whatever it was told is delivered must arrive).
pub fn early_shutdown() -> Scenario {
    base(
        "early-shutdown",
        app(vec![WOp::Write(20), WOp::Shutdown], vec![ROp::ReadToEof(64)]),
        app(vec![WOp::Write(70), WOp::Shutdown], vec![ROp::ReadToEof(64)]),
    )
}

/// MTU-probing transfer that ends by dropping both halves right after the write (no flush, no
/// shutdown): the FIN has to wait for everything that was accepted, also for what is still queued
/// behind an outstanding probe.
pub fn mtu_drop_close(link_mtu: usize, blackhole_above: Option<usize>, bytes: usize) -> Scenario {
    let mut s = mtu_transfer(link_mtu, blackhole_above, None, bytes, false);
    s.name = format!("{}-drop-close", s.name);
    s.app_a = app(vec![WOp::Write(bytes), WOp::Drop], vec![ROp::Drop]);
    s
}

/// the scenarios on which faults are enumerated
pub fn core() -> Vec<Scenario> {
    vec![a2b_bulk(), both_ways(), slow_reader(), small_writes(), fin_behind_data(), ping_pong(), tiny_rx(), drop_close(), idle_shutdown()]
}

/// Both directions over a probing path with a receive buffer between the initial and the largest
/// segment size at A: A's own segment size grows while B still has data for A.
pub fn small_rx_probing(rx_buf: usize) -> Scenario {
    let mut s = mtu_transfer(1500, None, None, 20_000, false);
    s.name = format!("small-rx-{rx_buf}-probing");
    s.a.rx_buf = rx_buf;
    s.app_a = app(vec![WOp::Write(20_000), WOp::WaitRead(3_000), WOp::Shutdown], vec![ROp::ReadToEof(4096)]);
    s.app_b = app(vec![WOp::PauseMs(400), WOp::Write(3_000), WOp::WaitRead(20_000), WOp::Shutdown], vec![ROp::ReadToEof(4096)]);
    s
}

/// MTU-probing transfer: link MTU > 576 so the MSS starts at 528 and probes upwards.
pub fn mtu_transfer(link_mtu: usize, blackhole_above: Option<usize>, emsgsize_above: Option<usize>, bytes: usize, ipv6: bool) -> Scenario {
    let mut s = base(
        &format!("mtu-{link_mtu}-bh{:?}-em{:?}{}", blackhole_above, emsgsize_above, if ipv6 { "-v6" } else { "" }),
        app(vec![WOp::Write(bytes), WOp::Shutdown], vec![ROp::ReadToEof(4096)]),
        app(vec![], vec![ROp::ReadToEof(4096)]),
    );
    for c in [&mut s.a, &mut s.b] {
        c.link_mtu = link_mtu;
        c.rx_buf = 64 * 1024;
        c.tx_init = 16 * 1024;
        c.tx_max = 64 * 1024;
    }
    s.ipv6 = ipv6;
    s.blackhole_above = blackhole_above;
    s.emsgsize_above = emsgsize_above;
    s.horizon_s = 60;
    s
}
