//! Level-synchronous parallel BFS over action histories of one driver. A state is the history that
//! reaches it; successors are computed by re-executing history + action on a fresh World; two
//! histories are merged iff their fingerprints (connection dump + harness + monitor state) agree.

use rayon::prelude::*;
use rustc_hash::FxHashMap;
use serde_json::{json, Value};
use std::cell::RefCell;

use super::monitors::{Finding, Monitors};
use super::world::*;
use crate::common::*;

pub struct Driver {
    pub name: String,
    pub cfg: SoloCfg,
    /// fixed script that produces the initial state (executed before the explored history)
    pub prefix: Vec<Act>,
    pub alphabet: Vec<Act>,
    pub depth: usize,
    /// which monitors judge (property ids); the others still run and are reported as INFO
    pub state_cap: usize,
}

pub struct ExecOut {
    pub fp: u128,
    /// findings raised by the LAST step only
    pub findings: Vec<Finding>,
    /// hash of what the last step emitted / returned (for outcome statistics and merge checks)
    pub out_hash: u64,
    pub terminal: bool,
    pub emitted: usize,
}

thread_local! {
    static RT: RefCell<Option<tokio::runtime::Runtime>> = const { RefCell::new(None) };
}

pub(crate) fn with_rt<T>(f: impl FnOnce(&tokio::runtime::Runtime) -> T) -> T {
    RT.with(|c| {
        let mut g = c.borrow_mut();
        if g.is_none() {
            *g = Some(
                tokio::runtime::Builder::new_current_thread()
                    .enable_time()
                    .start_paused(true)
                    .build()
                    .expect("runtime"),
            );
        }
        f(g.as_ref().unwrap())
    })
}

pub fn hash128(v: &[u64]) -> u128 {
    // two independent 64-bit mixes
    let mut a: u64 = 0x9E3779B97F4A7C15;
    let mut b: u64 = 0xC2B2AE3D27D4EB4F;
    for (i, x) in v.iter().enumerate() {
        a = (a ^ x.wrapping_add(i as u64)).wrapping_mul(0xff51afd7ed558ccd);
        a ^= a >> 32;
        b = (b.rotate_left(29) ^ x.wrapping_mul(0x165667B19E3779F9)).wrapping_mul(0x9FB21C651E98DF25);
        b ^= b >> 29;
    }
    ((a as u128) << 64) | b as u128
}

fn step_out_hash(rec: &StepRecord) -> u64 {
    use std::hash::{Hash, Hasher};
    let mut h = rustc_hash::FxHasher::default();
    for e in &rec.emitted {
        // header timestamps are the only place absolute time reaches the wire: masked
        (e.hdr.ptype, e.hdr.conn_id, e.hdr.seq, e.hdr.ack, e.hdr.wnd, &e.hdr.sack, &e.payload).hash(&mut h);
    }
    for (w, r) in &rec.app {
        (w, format!("{r:?}")).hash(&mut h);
    }
    (rec.d_result.as_ref().map(|r| format!("{r:?}")), rec.rejected.len(), rec.clock_advanced_us).hash(&mut h);
    h.finish()
}

/// Executes prefix + history. None if some action of the history is not applicable (then the
/// history is not a path of the transition system).
pub fn execute(d: &Driver, hist: &[u8], keep_world: bool) -> Option<(ExecOut, Option<(World, Monitors)>)> {
    let describe = || replay_json(d, hist);
    let _guard = crate::common::RunGuard::new(&describe);
    with_rt(|rt| {
        rt.block_on(async {
            let mut w = World::new(&d.cfg);
            let mut m = Monitors::new(&d.cfg);
            w.spawn_poll();
            let mut findings = m.check(&w, None);
            for a in &d.prefix {
                if !w.step(a).await {
                    machinery_error(&format!("driver {}: prefix action {:?} not applicable", d.name, a));
                }
                findings = m.check(&w, Some(a));
            }
            if hist.is_empty() && !findings.is_empty() {
                // findings of the prefix are reported at the root
            } else {
                findings.clear();
            }
            if hist.is_empty() {
                // root: report every finding the prefix produced
                findings = m.all_findings.clone();
            }
            for (i, ai) in hist.iter().enumerate() {
                let a = &d.alphabet[*ai as usize];
                if !w.step(a).await {
                    return None;
                }
                let f = m.check(&w, Some(a));
                if i + 1 == hist.len() {
                    findings = f;
                }
            }
            let mut v = w.fingerprint();
            m.digest(&w, &mut v);
            let last = w.trace.last().unwrap();
            let out = ExecOut {
                fp: hash128(&v),
                findings,
                out_hash: step_out_hash(last),
                terminal: w.done.is_some() && w.reader.is_none() && w.writer.is_none(),
                emitted: last.emitted.len(),
            };
            Some((out, if keep_world { Some((w, m)) } else { None }))
        })
    })
}

#[derive(Default)]
pub struct BfsResult {
    pub states: u64,
    pub transitions: u64,
    pub depth_completed: usize,
    pub capped: Option<String>,
    pub findings: Vec<(Finding, Vec<u8>)>,
    pub distinct_outcomes: u64,
    pub merge_checks: u64,
    pub per_level: Vec<u64>,
    pub emitted_datagrams: u64,
}

pub fn run_driver(ctx: &Ctx, d: &Driver) -> BfsResult {
    let mut res = BfsResult::default();
    // determinism: the root (prefix) executed twice must agree
    let r1 = execute(d, &[], false).unwrap_or_else(|| machinery_error("root not executable")).0;
    let r2 = execute(d, &[], false).unwrap().0;
    if r1.fp != r2.fp || r1.out_hash != r2.out_hash {
        machinery_error(&format!("driver {}: root state not deterministic", d.name));
    }
    for f in r1.findings {
        res.findings.push((f, vec![]));
    }
    let mut seen: FxHashMap<u128, ()> = FxHashMap::default();
    // representative histories for the merge (bisimulation) check, on a hash slice
    let slice: u128 = match ctx.tier {
        Tier::Quick => 16,
        Tier::Thorough => 4,
    };
    let mut reps: FxHashMap<u128, Vec<u8>> = FxHashMap::default();
    seen.insert(r1.fp, ());
    reps.insert(r1.fp, vec![]);
    let mut frontier: Vec<Vec<u8>> = vec![vec![]];
    let mut outcomes: std::collections::HashSet<u64> = Default::default();
    res.states = 1;
    let n_act = d.alphabet.len();
    for depth in 0..d.depth {
        if frontier.is_empty() {
            res.depth_completed = d.depth;
            break;
        }
        let t_level = std::time::Instant::now();
        let budget = ctx.budget_left();
        let results: Vec<Option<Vec<(Vec<u8>, ExecOut)>>> = frontier
            .par_iter()
            .map(|h| {
                if t_level.elapsed().as_secs_f64() > budget - 2.0 {
                    return None;
                }
                let mut v = vec![];
                for a in 0..n_act {
                    let mut h2 = h.clone();
                    h2.push(a as u8);
                    if let Some((o, _)) = execute(d, &h2, false) {
                        v.push((h2, o));
                    }
                }
                Some(v)
            })
            .collect();
        if results.iter().any(|r| r.is_none()) {
            res.capped = Some(format!("time budget hit inside depth {} (depth {} fully covered)", depth + 1, depth));
            break;
        }
        let mut next: Vec<Vec<u8>> = vec![];
        let mut merge_jobs: Vec<(Vec<u8>, Vec<u8>)> = vec![];
        for (h2, o) in results.into_iter().flatten().flatten() {
            res.transitions += 1;
            res.emitted_datagrams += o.emitted as u64;
            outcomes.insert(o.out_hash);
            for f in o.findings {
                res.findings.push((f, h2.clone()));
            }
            if seen.insert(o.fp, ()).is_none() {
                res.states += 1;
                if o.fp % slice == 0 {
                    reps.insert(o.fp, h2.clone());
                }
                if !o.terminal {
                    next.push(h2);
                }
            } else if o.fp % slice == 0 {
                if let Some(rep) = reps.get(&o.fp) {
                    if *rep != h2 && merge_jobs.len() < 2000 {
                        merge_jobs.push((rep.clone(), h2));
                    }
                }
            }
        }
        // empirical bisimulation check on merged states
        let bad: Vec<String> = merge_jobs
            .par_iter()
            .filter_map(|(rep, other)| {
                for a in 0..n_act {
                    let mut x = rep.clone();
                    x.push(a as u8);
                    let mut y = other.clone();
                    y.push(a as u8);
                    let ox = execute(d, &x, false).map(|o| (o.0.fp, o.0.out_hash));
                    let oy = execute(d, &y, false).map(|o| (o.0.fp, o.0.out_hash));
                    if ox != oy {
                        return Some(format!(
                            "driver {}: histories {:?} and {:?} have equal fingerprints but action {:?} leads to different results ({:?} vs {:?})",
                            d.name,
                            rep,
                            other,
                            d.alphabet[a],
                            ox,
                            oy
                        ));
                    }
                }
                None
            })
            .collect();
        res.merge_checks += merge_jobs.len() as u64;
        if let Some(b) = bad.first() {
            machinery_error(&format!("fingerprint incomplete: {b}"));
        }
        res.per_level.push(next.len() as u64);
        res.depth_completed = depth + 1;
        frontier = next;
        if res.states as usize > d.state_cap {
            if depth + 1 < d.depth {
                res.capped = Some(format!("state cap {} reached after depth {}", d.state_cap, depth + 1));
            }
            break;
        }
        if ctx.budget_left() < 3.0 && depth + 1 < d.depth {
            res.capped = Some(format!("time budget exhausted after depth {}", depth + 1));
            break;
        }
    }
    res.distinct_outcomes = outcomes.len() as u64;
    res
}

pub fn describe(d: &Driver, hist: &[u8]) -> Vec<String> {
    hist.iter().map(|i| format!("{:?}", d.alphabet[*i as usize])).collect()
}

pub fn replay_json(d: &Driver, hist: &[u8]) -> Value {
    json!({
        "engine": "solo",
        "driver": d.name,
        "cfg": d.cfg,
        "prefix": d.prefix,
        "actions": hist.iter().map(|i| d.alphabet[*i as usize].clone()).collect::<Vec<_>>(),
    })
}

/// BfsResult -> Part + violations (shortest history per signature; re-executed twice for stability).
pub fn report(d: &Driver, r: &BfsResult, out: &mut Outcome) {
    let mut p = Part::mc(&format!("solo:{}", d.name));
    p.states = r.states;
    p.transitions = r.transitions;
    p.distinct_outcomes = r.distinct_outcomes;
    p.bound = format!(
        "all histories of <= {} actions over an alphabet of {} after a prefix of {} actions; new states per level {:?}",
        r.depth_completed,
        d.alphabet.len(),
        d.prefix.len(),
        r.per_level
    );
    if let Some(c) = &r.capped {
        p.caps_hit.push(c.clone());
        p.exhaustive = false;
    }
    p.extra.insert("merged_state_bisimulation_checks".into(), json!(r.merge_checks));
    p.extra.insert("datagrams_emitted_and_validated".into(), json!(r.emitted_datagrams));
    p.extra.insert("alphabet".into(), json!(d.alphabet.iter().map(|a| format!("{a:?}")).collect::<Vec<_>>()));
    let sample_hist: Vec<u8> = (0..d.depth.min(4)).map(|i| (i % d.alphabet.len()) as u8).collect();
    p.samples.push(json!({"driver": d.name, "history": describe(d, &sample_hist)}));
    let mut best: std::collections::BTreeMap<String, &(Finding, Vec<u8>)> = Default::default();
    for fh in &r.findings {
        let e = best.entry(format!("{}|{}", fh.0.property, fh.0.signature)).or_insert(fh);
        if fh.1.len() < e.1.len() {
            *e = fh;
        }
    }
    for (_, (f, h)) in best {
        for _ in 0..2 {
            let again = execute(d, h, false).map(|o| o.0.findings).unwrap_or_default();
            let root_ok = h.is_empty();
            if !root_ok && !again.iter().any(|g| g.signature == f.signature && g.property == f.property) {
                machinery_error(&format!("solo finding {} (driver {}, history {:?}) did not reproduce", f.signature, d.name, h));
            }
        }
        out.violations.push(Violation {
            property: f.property.to_string(),
            monitor: f.monitor.to_string(),
            signature: f.signature.clone(),
            detail: format!("[driver {} history {:?}] {}", d.name, describe(d, h), f.detail),
            replay: replay_json(d, h),
        });
    }
    if r.distinct_outcomes < 3 && r.transitions > 10 {
        machinery_error(&format!("driver {} is vacuous: {} transitions produced only {} distinct step outcomes", d.name, r.transitions, r.distinct_outcomes));
    }
    out.parts.push(p);
}

/// Linear replay from a replay file (no explorer): prints every step.
pub fn replay(v: &Value) -> i32 {
    let r = &v["replay"];
    let cfg: SoloCfg = serde_json::from_value(r["cfg"].clone()).unwrap_or_else(|e| machinery_error(&format!("bad cfg: {e}")));
    let prefix: Vec<Act> = serde_json::from_value(r["prefix"].clone()).unwrap_or_default();
    let actions: Vec<Act> = serde_json::from_value(r["actions"].clone()).unwrap_or_default();
    let want = v["signature"].as_str().unwrap_or("").to_string();
    with_rt(|rt| {
        rt.block_on(async {
            let mut w = World::new(&cfg);
            let mut m = Monitors::new(&cfg);
            w.spawn_poll();
            let mut hit = false;
            let mut show = |w: &World, m: &mut Monitors, a: Option<&Act>, hit: &mut bool| {
                let fs = m.check(w, a);
                let rec = w.trace.last().unwrap();
                println!("--- step {} t={} us action={:?} (d_polls={} clock+{} us)", rec.step, rec.t_us, a, rec.d_polls, rec.clock_advanced_us);
                for (h, pl, idx) in &rec.peer_sent {
                    println!("      peer -> {} seq={} ack={} wnd={} sack={:?} payload={} idx={:?}", crate::duo::debug::type_name(h.ptype), h.seq, h.ack, h.wnd, h.sack, pl, idx);
                }
                for e in &rec.emitted {
                    println!("      emit <- {} seq={} ack={} wnd={} sack={:?} payload={}", crate::duo::debug::type_name(e.hdr.ptype), e.hdr.seq, e.hdr.ack, e.hdr.wnd, e.hdr.sack.map(|s| s.0), e.payload.len());
                }
                for (who, r) in &rec.app {
                    println!("      app {who}: {r:?}");
                }
                if let Some(r) = &rec.d_result {
                    println!("      connection future completed: {r:?}");
                }
                if let Some(o) = &rec.obs_after {
                    println!("      state={} timers={:?} flight={} rwnd={} cwnd={} mss={} rxq={} ooq={}B/{}p tx_ring={}/{} rto={:?} recovery_phase={} rto_retx={} segs={}", o.state, o.timers, o.flight_size, o.last_remote_window, o.cwnd, o.mss, o.rx_queue_bytes, o.rx_ooq_bytes, o.rx_ooq_packets, o.tx_ring_len, o.tx_ring_cap, o.rto, o.recovery_phase, o.rto_retransmissions, o.tx_segments);
                }
                for f in fs {
                    println!("      FINDING {} {} {}: {}", f.property, f.monitor, f.signature, f.detail);
                    if f.signature == want {
                        *hit = true;
                    }
                }
            };
            show(&w, &mut m, None, &mut hit);
            for a in prefix.iter().chain(actions.iter()) {
                if !w.step(a).await {
                    println!("action {a:?} not applicable - replay diverged");
                    return 2;
                }
                show(&w, &mut m, Some(a), &mut hit);
            }
            if hit {
                println!("REPLAY-VIOLATION {want}");
                1
            } else {
                println!("REPLAY-OK (recorded signature {want:?} not reproduced)");
                0
            }
        })
    })
}
