//! Oracles over a completed run. Each returns findings tagged with the property they decide.

use super::scenario::*;
use super::sim::Fate;

#[derive(Clone, Debug)]
pub struct Finding {
    pub property: &'static str,
    pub monitor: &'static str,
    pub signature: String,
    pub detail: String,
}

fn f(property: &'static str, monitor: &'static str, signature: impl Into<String>, detail: impl Into<String>) -> Finding {
    Finding { property, monitor, signature: signature.into(), detail: detail.into() }
}

pub fn side_name(s: Side) -> &'static str {
    match s {
        Side::A => "A(connector)",
        Side::B => "B(acceptor)",
    }
}

fn idx(s: Side) -> usize {
    match s {
        Side::A => 0,
        Side::B => 1,
    }
}
fn other(s: Side) -> Side {
    match s {
        Side::A => Side::B,
        Side::B => Side::A,
    }
}

/// C10 (any engine): no panic, no internal 'bug:' error surfaced to stream users.
pub fn no_panic_no_bug(l: &RunLog) -> Vec<Finding> {
    let mut v = vec![];
    if let Some(p) = &l.panicked {
        v.push(f("C10", "panic", "panic/in-run", format!("panic during the run: {p}")));
    }
    for e in &l.app {
        let msg = match &e.ev {
            AppEv::WriteErr(m) | AppEv::FlushErr(m) | AppEv::ShutdownErr(m) | AppEv::ReadErr(m) | AppEv::ConnectErr(m) | AppEv::AcceptErr(m) => m,
            _ => continue,
        };
        if msg.to_lowercase().starts_with("bug") {
            v.push(f("C10", "bug-error", format!("bug-error/{}", msg.split(':').take(2).collect::<Vec<_>>().join(":")), format!("{} saw internal error: {msg}", side_name(e.side))));
        }
    }
    v
}

/// C11 (c): every datagram a socket emitted is accepted by the reference parser.
pub fn emitted_wellformed(l: &RunLog) -> Vec<Finding> {
    let mut v = vec![];
    for w in &l.wire {
        if !w.injected && !w.parse_ok {
            v.push(f("C11", "emitted-wellformed", "emitted/unparseable", format!("send #{} at {} us is rejected by the reference parser", w.k, w.t_us)));
            break;
        }
    }
    v
}

/// C01: at every poll_read return the bytes read so far are a prefix of the bytes the peer's
/// poll_write accepted so far.
pub fn integrity(l: &RunLog) -> Vec<Finding> {
    let mut v = vec![];
    let mut accepted = [0u64; 2];
    let mut read = [0u64; 2];
    for e in &l.app {
        match &e.ev {
            AppEv::WriteAccepted { n, .. } => accepted[idx(e.side)] += *n as u64,
            AppEv::ReadGot { off, n, ok, first_bad } => {
                read[idx(e.side)] += *n as u64;
                if !*ok {
                    v.push(f(
                        "C01",
                        "integrity",
                        "integrity/wrong-bytes",
                        format!(
                            "{} read {} bytes at stream offset {}: first wrong byte at offset {} (t={} us)",
                            side_name(e.side), n, off, first_bad.unwrap_or(0), e.t_us
                        ),
                    ));
                    return v;
                }
                if read[idx(e.side)] > accepted[idx(other(e.side))] {
                    v.push(f(
                        "C01",
                        "integrity",
                        "integrity/read-more-than-written",
                        format!("{} has read {} bytes but the peer's write accepted only {}", side_name(e.side), read[idx(e.side)], accepted[idx(other(e.side))]),
                    ));
                    return v;
                }
            }
            _ => {}
        }
    }
    v
}

/// Sum of the bytes the script wants to write.
pub fn script_bytes(s: &AppScript) -> u64 {
    s.writer.iter().map(|o| if let WOp::Write(n) = o { *n as u64 } else { 0 }).sum()
}

pub fn reads_to_eof(s: &AppScript) -> bool {
    matches!(s.reader.last(), Some(ROp::ReadToEof(_))) || s.reader.iter().any(|r| matches!(r, ROp::ReadToEof(_)))
}

pub fn closes(s: &AppScript) -> bool {
    // the writer half is dropped at script end unless held
    !s.writer.iter().any(|o| matches!(o, WOp::Hold))
}

/// C02 clause 1 (fair-lossy progress): the scenario completes: every byte written is read by the
/// peer, flush/shutdown returned Ok, EOF seen, no error anywhere, before the horizon.
/// Only meaningful for scenarios whose applications run to completion (both read to EOF, both close).
pub fn progress(scn: &Scenario, l: &RunLog) -> Vec<Finding> {
    let mut v = vec![];
    let want = [script_bytes(&scn.app_a), script_bytes(&scn.app_b)];
    if l.watchdog_fired || !l.apps_finished {
        let stuck = l.stuck.clone();
        let connected = l.app.iter().any(|e| e.ev == AppEv::Connected);
        let sig = if !connected { "progress/connect-never-completed" } else { "progress/stalled-until-watchdog" };
        v.push(f("C02", "progress", sig, format!("run did not complete within {} s of virtual time; stuck: {}", scn.horizon_s, stuck.join("; "))));
        return v;
    }
    for e in &l.app {
        let (what, msg) = match &e.ev {
            AppEv::WriteErr(m) => ("write", m),
            AppEv::FlushErr(m) => ("flush", m),
            AppEv::ShutdownErr(m) => ("shutdown", m),
            AppEv::ReadErr(m) => ("read", m),
            AppEv::ConnectErr(m) => ("connect", m),
            AppEv::AcceptErr(m) => ("accept", m),
            _ => continue,
        };
        v.push(f(
            "C02",
            "progress",
            format!("progress/{what}-failed"),
            format!("{} {what} failed under a fair-lossy plan at t={} us: {msg}", side_name(e.side), e.t_us),
        ));
        return v;
    }
    for side in [Side::A, Side::B] {
        let w = idx(side);
        if l.accepted[w] != want[w] {
            v.push(f("C02", "progress", "progress/not-all-written", format!("{} wrote {} of {} bytes", side_name(side), l.accepted[w], want[w])));
        }
        let peer_script = if side == Side::A { &scn.app_b } else { &scn.app_a };
        if reads_to_eof(peer_script) {
            let r = idx(other(side));
            if l.read[r] != want[w] {
                v.push(f("C02", "progress", "progress/not-all-read", format!("{} read {} of the {} bytes {} wrote", side_name(other(side)), l.read[r], want[w], side_name(side))));
            }
            let eof = l.app.iter().any(|e| e.side == other(side) && matches!(e.ev, AppEv::ReadEof { .. }));
            let my_script = if side == Side::A { &scn.app_a } else { &scn.app_b };
            if closes(my_script) && !eof {
                v.push(f("C02", "progress", "progress/no-eof", format!("{} never saw end of stream", side_name(other(side)))));
            }
        }
    }
    v
}

/// Time of first delivery of send k (None if never delivered).
fn delivery_time(l: &RunLog, k: usize) -> Option<u64> {
    l.delivered.iter().filter(|d| d.1 == k).map(|d| d.0).min()
}

/// C02 clause 2 (promptness on loss-free runs). `rtt_us` = 2 x latency.
///  (a) while accepted bytes are undelivered and the peer's reader is parked, the wire is never
///      silent for longer than RTT + 40 ms;
///  (b) a write on an idle connection is on the wire at the same instant;
///  (c) a shutdown (or dropping the last half) on an idle connection emits ST_FIN at the same instant.
pub fn promptness(scn: &Scenario, l: &RunLog) -> Vec<Finding> {
    let mut v = vec![];
    let rtt = 2 * scn.latency_us;
    let bound = rtt + 40_000 + 10; // + drain slack
    // timeline of (t, kind)
    #[derive(Clone, Copy, PartialEq)]
    enum K {
        Wire,
        App,
    }
    let mut times: Vec<(u64, K, usize)> = vec![];
    for (i, w) in l.wire.iter().enumerate() {
        if !w.injected && !w.rejected {
            times.push((w.t_us, K::Wire, i));
        }
    }
    for (i, e) in l.app.iter().enumerate() {
        times.push((e.t_us, K::App, i));
    }
    times.sort_by_key(|x| (x.0, if x.1 == K::App { 0 } else { 1 }, x.2));
    // state tracked along the timeline
    let mut accepted = [0u64; 2];
    let mut read = [0u64; 2];
    let mut reader_parked = [false; 2];
    let mut reader_gone = [false; 2];
    let mut last_wire_t: Option<u64> = None;
    // since when the silence conditions hold continuously (per direction of data flow: writer side w)
    let mut cond_since: [Option<u64>; 2] = [None, None];
    let mut reported = false;
    let check_silence = |t: u64, cond_since: &[Option<u64>; 2], last_wire_t: Option<u64>, v: &mut Vec<Finding>, reported: &mut bool, why: &str| {
        for w in 0..2 {
            if let (Some(since), Some(lw)) = (cond_since[w], last_wire_t) {
                let start = since.max(lw);
                if t > start && t - start > bound && !*reported {
                    *reported = true;
                    v.push(f(
                        "C02",
                        "promptness",
                        "promptness/wire-silent-with-undelivered-bytes",
                        format!(
                            "loss-free run: wire silent from {} us to {} us ({} us > RTT {} + 40 ms) while bytes written by {} were undelivered and the peer's reader was parked; ended by {}",
                            start, t, t - start, rtt, if w == 0 { "A" } else { "B" }, why
                        ),
                    ));
                }
            }
        }
    };
    for (t, kind, i) in times.iter().copied() {
        match kind {
            K::Wire => {
                check_silence(t, &cond_since, last_wire_t, &mut v, &mut reported, "the next datagram");
                last_wire_t = Some(t);
            }
            K::App => {
                let e = &l.app[i];
                let s = idx(e.side);
                match &e.ev {
                    AppEv::WriteAccepted { n, .. } => accepted[s] += *n as u64,
                    AppEv::ReadGot { n, .. } => {
                        read[s] += *n as u64;
                        reader_parked[s] = false;
                    }
                    AppEv::ReadPending => reader_parked[s] = true,
                    AppEv::ReadEof { .. } | AppEv::ReadErr(_) => {
                        reader_parked[s] = false;
                        reader_gone[s] = true;
                    }
                    AppEv::ReaderDropped | AppEv::ReaderScriptDone => {
                        reader_parked[s] = false;
                        reader_gone[s] = true;
                    }
                    _ => {}
                }
                // re-evaluate conditions for both data directions
                for w in 0..2 {
                    let r = 1 - w;
                    let cond = accepted[w] > read[r] && reader_parked[r] && !reader_gone[r];
                    if cond {
                        if cond_since[w].is_none() {
                            cond_since[w] = Some(t);
                        }
                    } else {
                        if cond_since[w].is_some() {
                            check_silence(t, &cond_since, last_wire_t, &mut v, &mut reported, "an application event");
                        }
                        cond_since[w] = None;
                    }
                }
            }
        }
    }
    // (b)/(c): immediacy on an idle connection
    // idle at time t for side S: every byte S's write accepted before t has been acknowledged by a
    // datagram delivered to S before t, and no FIN sent yet.
    for side in [Side::A, Side::B] {
        let from_a = side == Side::A;
        // first data seq of this side: seq of its first ST_DATA on the wire
        let data: Vec<&WireEventLite> = l.wire.iter().filter(|w| w.from_a == from_a && w.ptype == 0 && !w.injected).collect();
        // cumulative byte position at the end of each seq
        let mut seq_end: std::collections::BTreeMap<u16, u64> = Default::default();
        {
            let mut seen: std::collections::BTreeSet<u16> = Default::default();
            let mut pos = 0u64;
            // first transmissions in time order are in sequence order
            for w in &data {
                if seen.insert(w.seq) {
                    pos += w.payload.len() as u64;
                    seq_end.insert(w.seq, pos);
                }
            }
        }
        // acked bytes as known to `side` at time t: highest seq_end among acks delivered by t
        let acked_at = |t: u64| -> u64 {
            let mut best = 0u64;
            for w in l.wire.iter().filter(|w| w.from_a != from_a && !w.injected && w.parse_ok) {
                if let Some(dt) = delivery_time(l, w.k) {
                    if dt <= t {
                        if let Some(p) = seq_end.get(&w.ack) {
                            best = best.max(*p);
                        }
                    }
                }
            }
            best
        };
        let mut acc = 0u64;
        let mut fin_sent_or_due = false;
        for (i, e) in l.app.iter().enumerate() {
            if e.side != side {
                continue;
            }
            match &e.ev {
                AppEv::WriteAccepted { off, n } => {
                    let idle = acked_at(e.t_us) >= *off && *off == acc && !fin_sent_or_due;
                    acc += *n as u64;
                    // established for the acceptor only once the connector's first packet arrived
                    if idle && connection_established_at(l, side, e.t_us) && peer_window_open_at(l, side, e.t_us) {
                        let on_wire = l.wire.iter().any(|w| w.from_a == from_a && w.ptype == 0 && !w.injected && w.t_us >= e.t_us && w.t_us <= e.t_us + 10);
                        // the accepted bytes may have been sent by the same poll as part of the write loop: look for any ST_DATA covering offset `off`
                        if !on_wire {
                            let later = l.wire.iter().find(|w| w.from_a == from_a && w.ptype == 0 && !w.injected && w.t_us > e.t_us);
                            v.push(f(
                                "C02",
                                "promptness",
                                "promptness/write-on-idle-not-sent-at-once",
                                format!(
                                    "loss-free run: {} wrote {} bytes at offset {} on an idle connection at {} us; no ST_DATA at that instant (next ST_DATA at {:?} us)",
                                    side_name(side), n, off, e.t_us, later.map(|w| w.t_us)
                                ),
                            ));
                            return v;
                        }
                    }
                }
                AppEv::ShutdownCalled | AppEv::WriterDropped => {
                    let is_shutdown = e.ev == AppEv::ShutdownCalled;
                    // dropping the writer alone only closes when the reader is gone too
                    let reader_gone_now = l.app[..i].iter().any(|x| x.side == side && matches!(x.ev, AppEv::ReaderDropped));
                    if !is_shutdown && !reader_gone_now {
                        continue;
                    }
                    if fin_sent_or_due {
                        continue;
                    }
                    fin_sent_or_due = true;
                    let idle = acked_at(e.t_us) >= acc;
                    let remote_fin_seen = l.wire.iter().any(|w| w.from_a != from_a && w.ptype == 1 && delivery_time(l, w.k).map(|d| d <= e.t_us).unwrap_or(false));
                    if !idle && connection_established_at(l, side, e.t_us) {
                        // closing was requested with data outstanding: the FIN is due at the instant the
                        // acknowledgement of the last byte is delivered (progress must not wait for an incidental timer)
                        let mut t_ack: Option<u64> = None;
                        for w in l.wire.iter().filter(|w| w.from_a != from_a && !w.injected && w.parse_ok) {
                            if let (Some(dt), Some(p)) = (delivery_time(l, w.k), seq_end.get(&w.ack)) {
                                if *p >= acc && dt >= e.t_us {
                                    t_ack = Some(t_ack.map(|x: u64| x.min(dt)).unwrap_or(dt));
                                }
                            }
                        }
                        if let Some(ta) = t_ack {
                            let remote_fin_by_then = l.wire.iter().any(|w| w.from_a != from_a && w.ptype == 1 && delivery_time(l, w.k).map(|d| d <= ta).unwrap_or(false));
                            let all_sent = seq_end.values().max().copied().unwrap_or(0) >= acc;
                            if !remote_fin_by_then && all_sent {
                                let fin = l.wire.iter().find(|w| w.from_a == from_a && w.ptype == 1 && !w.injected && w.t_us >= e.t_us);
                                let ok = fin.map(|w| w.t_us <= ta + 10).unwrap_or(false);
                                if !ok {
                                    v.push(f(
                                        "C02",
                                        "promptness",
                                        "promptness/pending-close-fin-delayed",
                                        format!(
                                            "loss-free run: {} requested close at {} us with data outstanding; the last byte's ACK was delivered at {} us but ST_FIN appeared at {:?} us",
                                            side_name(side), e.t_us, ta, fin.map(|w| w.t_us)
                                        ),
                                    ));
                                    return v;
                                }
                            }
                        }
                    }
                    if idle && !remote_fin_seen && connection_established_at(l, side, e.t_us) {
                        let fin = l.wire.iter().find(|w| w.from_a == from_a && w.ptype == 1 && !w.injected && w.t_us >= e.t_us);
                        let ok = fin.map(|w| w.t_us <= e.t_us + 10).unwrap_or(false);
                        if !ok {
                            v.push(f(
                                "C02",
                                "promptness",
                                if is_shutdown { "promptness/shutdown-on-idle-fin-delayed" } else { "promptness/drop-on-idle-fin-delayed" },
                                format!(
                                    "loss-free run: {} called {} on an idle connection at {} us; ST_FIN appeared at {:?} us",
                                    side_name(side), if is_shutdown { "shutdown" } else { "drop of both halves" }, e.t_us, fin.map(|w| w.t_us)
                                ),
                            ));
                            return v;
                        }
                    }
                }
                _ => {}
            }
        }
    }
    v
}

/// The acceptor is established once a packet of the connector was delivered to it; the connector
/// once `connect` returned.
fn connection_established_at(l: &RunLog, side: Side, t: u64) -> bool {
    match side {
        Side::A => l.app.iter().any(|e| e.ev == AppEv::Connected && e.t_us <= t),
        Side::B => l
            .wire
            .iter()
            .any(|w| w.from_a && (w.ptype == 0 || w.ptype == 2) && !w.injected && delivery_time(l, w.k).map(|d| d <= t).unwrap_or(false)),
    }
}

/// Last window the peer advertised to `side` (delivered by t) is non-zero.
fn peer_window_open_at(l: &RunLog, side: Side, t: u64) -> bool {
    let from_a = side == Side::A;
    let mut last: Option<(u64, u32)> = None;
    for w in l.wire.iter().filter(|w| w.from_a != from_a && !w.injected && w.parse_ok && w.ptype != 4) {
        if let Some(dt) = delivery_time(l, w.k) {
            if dt <= t && last.map(|x| dt >= x.0).unwrap_or(true) {
                last = Some((dt, w.wnd));
            }
        }
    }
    last.map(|x| x.1 > 0).unwrap_or(false)
}

pub fn plan_is_fair_lossy(plan: &[(usize, Fate)]) -> bool {
    plan.len() < 5
}
