//! C18 Nagle (solo).
use super::solo_drivers::*;
use crate::common::*;

pub fn run(ctx: &Ctx) -> Outcome {
    let mut out = Outcome::default();
    let d = ctx.tier.pick(7, 8);
    run_and_report(ctx, &nagle(ctx.tier, true, d), &mut out);
    run_and_report(ctx, &nagle(ctx.tier, false, d), &mut out);
    run_and_report(ctx, &nagle_recovery(ctx.tier, d), &mut out);
    // on a path whose segment size is still being searched (probe slots, changing MSS)
    run_and_report(ctx, &nagle_mtu(ctx.tier, false, 1, ctx.tier.pick(7, 9)), &mut out);
    run_and_report(ctx, &nagle_mtu(ctx.tier, true, 1, ctx.tier.pick(7, 9)), &mut out);
    run_and_report(ctx, &nagle_close(ctx.tier, ctx.tier.pick(7, 8)), &mut out);
    for r in [0usize, 1] {
        run_and_report(ctx, &nagle_mtu_sack(ctx.tier, r, ctx.tier.pick(7, 8)), &mut out);
    }
    out.rule = "C18: explicit-state BFS over write-size sequences x ACK timings x both Nagle settings; judged at every first transmission and after every step in which the connection ran".into();
    out.assumptions.push("'limited only by window and congestion control' is evaluated with the congestion window read through the hook observer".into());
    out
}
