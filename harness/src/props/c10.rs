//! C10 hostile datagrams (solo: per-connection; duo: cross-contamination on the socket).
use super::solo_drivers::*;
use crate::common::*;
use crate::solo::world::Act;

pub fn run(ctx: &Ctx) -> Outcome {
    let mut out = Outcome::default();
    let d = ctx.tier.pick(3, 4);
    for drv in hostile_all(ctx.tier, d) {
        run_and_report(ctx, &drv, &mut out);
    }
    // longer hostile sequences over thinned alphabets (every 4th packet of the hostile alphabet - each of
    // the four residues in turn - plus all benign actions): damage that needs several absurd packets in a
    // row to build up
    let d2 = ctx.tier.pick(5, 7);
    let residues: Vec<usize> = ctx.tier.pick(vec![0, 2], vec![0, 1, 2, 3]);
    for r in residues {
        for mut drv in hostile_all(ctx.tier, d2) {
            let keep: Vec<Act> = drv.alphabet.iter().enumerate().filter(|(i, a)| !matches!(a, Act::Deliver(_) | Act::Deliver2(..)) || i % 4 == r).map(|(_, a)| a.clone()).collect();
            drv.name = format!("{}-thin{r}", drv.name);
            drv.alphabet = keep;
            run_and_report(ctx, &drv, &mut out);
        }
    }
    out.merge(crate::props::sockets::hostile_socket(ctx));
    // the byte level: every structurally enumerated byte string (C11's domain) through both parsers, judged for panics only
    out.merge(crate::exhaust::wire::totality(ctx));
    out.rule = "C10: from each of 8 connection states ALL sequences of <= depth packets of a hostile alphabet (absurd ack/seq/window values, SACKs of length 0..36, oversize payloads, types illegal in the state) mixed with benign application actions; no panic (catch_unwind), no Bug* error, buffering within the configured bounds; plus the byte level: both parsers on every structurally enumerated byte string (first bytes, extension-chain shapes with every declared length, every truncation point), no panic".into();
    out.assumptions.push("the connection task runs between bursts of at most 2 datagrams; the dispatcher->connection channel itself is unbounded in the code and a starved connection task is outside what is explored".into());
    out
}
