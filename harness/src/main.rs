mod common;
mod duo;
mod exhaust;
mod props;
mod solo;

use common::*;

fn usage() -> ! {
    eprintln!("usage: utpmc <C01..C19> [--tier quick|thorough] [--replay <file>]");
    std::process::exit(2)
}

fn main() {
    let args: Vec<String> = std::env::args().skip(1).collect();
    if args.is_empty() {
        usage();
    }
    if args[0] == "debug" {
        // utpmc debug <scenario-name> ['[[k,"Drop"],...]']
        let name = args.get(1).cloned().unwrap_or_default();
        let mut all = duo::lib::core();
        all.push(duo::lib::small_writes_nodelay());
        all.push(duo::lib::early_shutdown());
        all.push(duo::lib::mtu_drop_close(700, None, 6_000));
        all.push(duo::lib::small_rx_probing(1000));
        all.push(duo::lib::paced_tiny_writes());
        all.push(duo::lib::acceptor_closes_first());
        all.push(duo::lib::wrapped_drop_close());
        all.push(duo::lib::mtu_transfer(700, Some(600), None, 9000, false));
        all.push(duo::lib::mtu_transfer(700, None, None, 9000, false));
        let scn = all.into_iter().find(|s| s.name == name).unwrap_or_else(|| {
            eprintln!("unknown scenario");
            std::process::exit(2)
        });
        let plan: Vec<(usize, duo::sim::Fate)> = args.get(2).map(|p| serde_json::from_str(p).expect("plan json")).unwrap_or_default();
        let v = serde_json::json!({"signature": "", "replay": {"engine": "duo", "scenario": scn, "plan": plan, "abort": "None"}});
        std::process::exit(duo::replay(&v));
    }
    if args[0] == "sweep" {
        // debugging aid: every solo driver under every monitor, all findings regardless of property
        let depth: Option<usize> = args.get(1).and_then(|s| s.parse().ok());
        let ctx = Ctx { prop: "SWEEP".into(), tier: Tier::Thorough, seed: 0, start: std::time::Instant::now(), verif_dir: std::path::PathBuf::from("/tmp/sweep") };
        let _ = std::fs::create_dir_all("/tmp/sweep");
        std::panic::set_hook(Box::new(|_| {}));
        for mut d in props::solo_drivers::all_drivers(Tier::Quick) {
            if let Some(x) = depth {
                d.depth = x;
            }
            let mut out = Outcome::default();
            let t0 = std::time::Instant::now();
            props::solo_drivers::run_and_report(&ctx, &d, &mut out);
            println!("== {} depth {} states {} ({:.1} s)", d.name, d.depth, out.parts.iter().map(|p| p.states).sum::<u64>(), t0.elapsed().as_secs_f64());
            for v in &out.violations {
                println!("   {}:{}  {}", v.property, v.signature, v.detail.chars().take(400).collect::<String>());
            }
        }
        std::process::exit(0);
    }
    if args[0] == "solo-debug" {
        let name = args.get(1).cloned().unwrap_or_default();
        let hist: Vec<u8> = serde_json::from_str(args.get(2).map(|s| s.as_str()).unwrap_or("[]")).expect("history json");
        let d = props::solo_drivers::all_drivers(Tier::Quick).into_iter().find(|d| d.name == name).unwrap_or_else(|| {
            eprintln!("unknown driver; known: {:?}", props::solo_drivers::all_drivers(Tier::Quick).iter().map(|d| d.name.clone()).collect::<Vec<_>>());
            std::process::exit(2)
        });
        let v = serde_json::json!({"signature": "", "replay": solo::bfs::replay_json(&d, &hist)});
        let code = solo::bfs::replay(&v);
        if let Some((_, Some((w, m)))) = solo::bfs::execute(&d, &hist, true) {
            let mut fp = w.fingerprint();
            let n = fp.len();
            m.digest(&w, &mut fp);
            println!("FP-CONN+HARNESS {:?}", &fp[..n]);
            println!("FP-MONITORS {:?}", &fp[n..]);
        }
        std::process::exit(code);
    }
    let prop = args[0].clone();
    let mut tier = match std::env::var("VERIF_TIER").ok().as_deref() {
        Some("thorough") => Tier::Thorough,
        _ => Tier::Quick,
    };
    let mut replay: Option<String> = None;
    let mut i = 1;
    while i < args.len() {
        match args[i].as_str() {
            "--tier" => {
                i += 1;
                tier = match args.get(i).map(|s| s.as_str()) {
                    Some("quick") => Tier::Quick,
                    Some("thorough") => Tier::Thorough,
                    _ => usage(),
                };
            }
            "--replay" => {
                i += 1;
                replay = Some(args.get(i).cloned().unwrap_or_else(|| usage()));
            }
            _ => usage(),
        }
        i += 1;
    }
    let seed = std::env::var("VERIF_SEED")
        .ok()
        .and_then(|s| s.parse::<u64>().ok())
        .unwrap_or(0);
    let verif_dir = std::env::var("VERIF_DIR")
        .map(std::path::PathBuf::from)
        .unwrap_or_else(|_| std::path::PathBuf::from("/verif"));
    let ctx = Ctx {
        prop: prop.clone(),
        tier,
        seed,
        start: std::time::Instant::now(),
        verif_dir,
    };
    // Panics inside explored executions are caught and turned into violations by the engines;
    // keep the default hook quiet so that the output stays readable.
    if std::env::var("VERIF_PANIC_TRACE").is_err() {
        std::panic::set_hook(Box::new(|_| {}));
    }

    if let Some(r) = replay {
        std::process::exit(replay_file(&ctx, &r));
    }

    common::start_watchdog(&ctx);
    // a panic of the machinery itself (not inside an explored execution, those are caught by the engines)
    // must never look like a verdict, nor die silently
    let run_all = || -> (&'static str, Outcome) {
        match prop.as_str() {
        "C01" => ("fault_enumeration", props::c01::run(&ctx)),
        "C02" => ("fault_enumeration", props::c02::run(&ctx)),
        "C03" => ("fault_enumeration", props::c03::run(&ctx)),
        "C04" => ("model_checking", props::c04::run(&ctx)),
        "C05" => ("model_checking", props::c05::run(&ctx)),
        "C06" => ("model_checking", props::c06::run(&ctx)),
        "C07" => ("model_checking", props::c07::run(&ctx)),
        "C08" => ("fault_enumeration", props::c08::run(&ctx)),
        "C09" => ("model_checking", props::c09::run(&ctx)),
        "C10" => ("model_checking", props::c10::run(&ctx)),
        "C11" => ("model_checking", props::c11::run(&ctx)),
        "C12" => ("fault_enumeration", props::sockets::c12(&ctx)),
        "C13" => ("fault_enumeration", props::sockets::c13(&ctx)),
        "C14" => ("model_checking", props::c14::run(&ctx)),
        "C15" => ("model_checking", exhaust::cubic::run(&ctx)),
        "C16" => ("model_checking", exhaust::rtte::run(&ctx)),
        "C17" => ("model_checking", props::c17::run(&ctx)),
        "C18" => ("model_checking", props::c18::run(&ctx)),
        "C19" => ("model_checking", props::c19::run(&ctx)),
            _ => usage(),
        }
    };
    let (level, out) = match std::panic::catch_unwind(std::panic::AssertUnwindSafe(run_all)) {
        Ok(x) => x,
        Err(p) => {
            let msg = p.downcast_ref::<String>().cloned().or_else(|| p.downcast_ref::<&str>().map(|s| s.to_string())).unwrap_or_else(|| "panic".into());
            machinery_error(&format!("the checker itself panicked: {msg} (run with VERIF_PANIC_TRACE=1 RUST_BACKTRACE=1 for the location)"));
        }
    };
    std::process::exit(finish(&ctx, level, out));
}

fn replay_file(_ctx: &Ctx, path: &str) -> i32 {
    let s = match std::fs::read_to_string(path) {
        Ok(s) => s,
        Err(e) => machinery_error(&format!("cannot read {path}: {e}")),
    };
    let v: serde_json::Value = match serde_json::from_str(&s) {
        Ok(v) => v,
        Err(e) => machinery_error(&format!("bad replay file: {e}")),
    };
    let engine = v["replay"]["engine"].as_str().unwrap_or("");
    match engine {
        "exhaust" => exhaust::replay(&v),
        "duo" => duo::replay(&v),
        "solo" => solo::bfs::replay(&v),
        "sock" => props::sockets::replay(&v),
        _ => machinery_error(&format!("unknown engine {engine:?} in replay file")),
    }
}
