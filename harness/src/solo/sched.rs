//! Controlled scheduler for real threads (CHESS-style stateless exploration).
//!
//! The stream halves (polled by application tasks) and the connection (polled by the dispatcher task)
//! run on different threads of a multi-threaded runtime. Everything they share sits behind three
//! locks (`UserTx::locked`, the TX ring's producer / consumer mutexes, `UserRxShared::locked`); with
//! the `verif` feature these locks announce every acquisition to a hook. Here the hook parks the
//! thread until the controller grants it the next step, so a "step" is the code from one lock
//! acquisition up to the next one, and the controller decides the order of all steps: every
//! interleaving of the critical sections of 2-3 real threads can be enumerated and replayed.
//!
//! A schedule is the list of choices made at the decision points (index into the enabled threads in
//! canonical order: the thread that ran last first - continuing it is not a preemption - then by
//! ascending thread id). Past the end of the given list choice 0 is taken.

use std::sync::Arc;

use librqbit_utp::verif::sync::SchedHook;
use parking_lot::{Condvar, Mutex};

#[derive(Clone, Copy, Debug, PartialEq, Eq)]
enum TStatus {
    NotStarted,
    Running,
    Waiting { lock: usize, exclusive: bool },
    Done,
}

#[derive(Clone, Copy, Debug, Default, PartialEq, Eq)]
pub struct Decision {
    pub chosen: u8,
    pub enabled: u8,
    /// the thread that ran last was still enabled (so any choice other than 0 is a preemption)
    pub last_enabled: bool,
    pub tid: u8,
}

struct CState {
    threads: Vec<TStatus>,
    /// lock address -> (exclusive holder, number of shared holders)
    held: std::collections::HashMap<usize, (Option<usize>, usize)>,
    schedule: Vec<u8>,
    decisions: Vec<Decision>,
    granted: Option<usize>,
    last_ran: Option<usize>,
    aborted: Option<String>,
    diverged: bool,
}

pub struct Controller {
    st: Mutex<CState>,
    cv: Condvar,
}

pub struct ThreadHook {
    pub ctrl: Arc<Controller>,
    pub tid: usize,
}

impl SchedHook for ThreadHook {
    fn before(&self, lock: usize, exclusive: bool) {
        self.ctrl.yield_point(self.tid, TStatus::Waiting { lock, exclusive });
    }
    fn acquired(&self, lock: usize, exclusive: bool) {
        let mut g = self.ctrl.st.lock();
        let e = g.held.entry(lock).or_insert((None, 0));
        if exclusive {
            e.0 = Some(self.tid);
        } else {
            e.1 += 1;
        }
    }
    fn released(&self, lock: usize, exclusive: bool) {
        let mut g = self.ctrl.st.lock();
        if let Some(e) = g.held.get_mut(&lock) {
            if exclusive {
                e.0 = None;
            } else {
                e.1 = e.1.saturating_sub(1);
            }
        }
    }
}

#[derive(Debug, Default, Clone)]
pub struct SchedOutcome {
    pub decisions: Vec<Decision>,
    pub deadlock: Option<String>,
    /// the given schedule asked for a choice that does not exist (a replay that diverged)
    pub diverged: bool,
}

impl Controller {
    pub fn new(n_threads: usize, schedule: &[u8]) -> Arc<Controller> {
        Arc::new(Controller {
            st: Mutex::new(CState {
                threads: vec![TStatus::NotStarted; n_threads],
                held: Default::default(),
                schedule: schedule.to_vec(),
                decisions: vec![],
                granted: None,
                last_ran: None,
                aborted: None,
                diverged: false,
            }),
            cv: Condvar::new(),
        })
    }

    /// Called by a controlled thread: parks until the controller grants it the next step.
    fn yield_point(&self, tid: usize, status: TStatus) {
        let mut g = self.st.lock();
        g.threads[tid] = status;
        if g.granted == Some(tid) {
            g.granted = None;
        }
        self.cv.notify_all();
        loop {
            if g.aborted.is_some() {
                drop(g);
                // unwinds the thread out of whatever it was doing; its guards are released on the way
                std::panic::resume_unwind(Box::new("verif-sched-abort".to_string()));
            }
            if g.granted == Some(tid) {
                g.threads[tid] = TStatus::Running;
                return;
            }
            self.cv.wait(&mut g);
        }
    }

    /// First thing a controlled thread does: wait for its first turn (a start is a decision point too).
    pub fn wait_start(&self, tid: usize) {
        self.yield_point(tid, TStatus::Waiting { lock: 0, exclusive: false });
    }

    /// Last thing a controlled thread does.
    pub fn finish(&self, tid: usize) {
        let mut g = self.st.lock();
        g.threads[tid] = TStatus::Done;
        if g.granted == Some(tid) {
            g.granted = None;
        }
        self.cv.notify_all();
    }

    /// Runs on the explorer's thread until every controlled thread is done.
    pub fn drive(&self) -> SchedOutcome {
        let mut g = self.st.lock();
        loop {
            // wait until nobody is running
            while g.granted.is_some() || g.threads.iter().any(|t| matches!(t, TStatus::NotStarted | TStatus::Running)) {
                self.cv.wait(&mut g);
            }
            if g.threads.iter().all(|t| *t == TStatus::Done) {
                break;
            }
            let free = |g: &CState, lock: usize, exclusive: bool| -> bool {
                if lock == 0 {
                    return true;
                }
                match g.held.get(&lock) {
                    None => true,
                    Some((x, readers)) => {
                        if exclusive {
                            x.is_none() && *readers == 0
                        } else {
                            x.is_none()
                        }
                    }
                }
            };
            let mut enabled: Vec<usize> = vec![];
            for (tid, t) in g.threads.iter().enumerate() {
                if let TStatus::Waiting { lock, exclusive } = t {
                    if free(&g, *lock, *exclusive) {
                        enabled.push(tid);
                    }
                }
            }
            if enabled.is_empty() {
                let desc = format!("no thread can proceed: {:?}, locks held {:?}", g.threads, g.held);
                g.aborted = Some(desc);
                self.cv.notify_all();
                // let the parked threads unwind
                while !g.threads.iter().all(|t| *t == TStatus::Done) {
                    self.cv.wait(&mut g);
                }
                break;
            }
            // canonical order: the thread that ran last first, then ascending ids
            let last_enabled = g.last_ran.map(|l| enabled.contains(&l)).unwrap_or(false);
            if last_enabled {
                let l = g.last_ran.unwrap();
                enabled.retain(|t| *t != l);
                enabled.insert(0, l);
            }
            let pos = g.decisions.len();
            let mut choice = g.schedule.get(pos).copied().unwrap_or(0) as usize;
            if choice >= enabled.len() {
                g.diverged = true;
                choice = 0;
            }
            let tid = enabled[choice];
            g.decisions.push(Decision { chosen: choice as u8, enabled: enabled.len() as u8, last_enabled, tid: tid as u8 });
            g.last_ran = Some(tid);
            g.granted = Some(tid);
            self.cv.notify_all();
        }
        SchedOutcome { decisions: g.decisions.clone(), deadlock: g.aborted.clone(), diverged: g.diverged }
    }
}

/// Body wrapper for a controlled thread.
pub fn controlled<R>(ctrl: &Arc<Controller>, tid: usize, handle: &tokio::runtime::Handle, f: impl FnOnce() -> R) -> Result<R, String> {
    let _g = handle.enter();
    librqbit_utp::verif::sync::set_thread_hook(Some(Arc::new(ThreadHook { ctrl: ctrl.clone(), tid })));
    let r = std::panic::catch_unwind(std::panic::AssertUnwindSafe(|| {
        ctrl.wait_start(tid);
        f()
    }));
    librqbit_utp::verif::sync::set_thread_hook(None);
    ctrl.finish(tid);
    r.map_err(|p| p.downcast_ref::<String>().cloned().or_else(|| p.downcast_ref::<&str>().map(|s| s.to_string())).unwrap_or_else(|| "panic".into()))
}

/// Number of preemptions in a decision list (a choice other than 0 while the last thread could continue).
pub fn preemptions(ds: &[Decision]) -> usize {
    ds.iter().filter(|d| d.last_enabled && d.chosen != 0).count()
}

/// Stateless depth-first enumeration of all schedules with at most `bound` preemptions
/// (`None`: all schedules). `run` executes one schedule prefix (choice 0 afterwards) and returns the
/// decisions actually taken. Returns (executions, capped?).
pub fn explore_schedules(bound: Option<usize>, max_runs: u64, mut run: impl FnMut(&[u8]) -> Option<SchedOutcome>) -> (u64, bool) {
    let mut stack: Vec<Vec<u8>> = vec![vec![]];
    let mut runs = 0u64;
    while let Some(prefix) = stack.pop() {
        if runs >= max_runs {
            return (runs, true);
        }
        runs += 1;
        let Some(out) = run(&prefix) else { continue };
        let ds = &out.decisions;
        for i in prefix.len()..ds.len() {
            let before = preemptions(&ds[..i]);
            for alt in 1..ds[i].enabled {
                let cost = before + if ds[i].last_enabled { 1 } else { 0 };
                if let Some(b) = bound {
                    if cost > b {
                        continue;
                    }
                }
                let mut p: Vec<u8> = ds[..i].iter().map(|d| d.chosen).collect();
                p.push(alt);
                stack.push(p);
            }
        }
    }
    (runs, false)
}

// ---------------------------------------------------------------------------------------------
// A small pool of persistent threads per exploring thread: creating and destroying OS threads for
// every execution serialises all explorers on the process's address-space lock.
// ---------------------------------------------------------------------------------------------

type Job = Box<dyn FnOnce() + Send + 'static>;

struct PoolWorker {
    tx: std::sync::mpsc::Sender<Job>,
    done: std::sync::mpsc::Receiver<()>,
}

thread_local! {
    static POOL: std::cell::RefCell<Vec<PoolWorker>> = const { std::cell::RefCell::new(Vec::new()) };
}

/// Runs the jobs on pool threads while `drive` runs on the calling thread; returns when all jobs
/// have finished. The jobs may borrow from the caller's stack: nothing outlives this call.
pub fn run_jobs<'a, R>(jobs: Vec<Box<dyn FnOnce() + Send + 'a>>, drive: impl FnOnce() -> R) -> R {
    POOL.with(|p| {
        let mut p = p.borrow_mut();
        while p.len() < jobs.len() {
            let (tx, rx) = std::sync::mpsc::channel::<Job>();
            let (dtx, drx) = std::sync::mpsc::channel::<()>();
            std::thread::Builder::new()
                .name("utpmc-sched".into())
                .spawn(move || {
                    for job in rx {
                        job();
                        if dtx.send(()).is_err() {
                            break;
                        }
                    }
                })
                .expect("spawn pool thread");
            p.push(PoolWorker { tx, done: drx });
        }
        let n = jobs.len();
        for (i, j) in jobs.into_iter().enumerate() {
            // SAFETY: the job is finished (its completion is received below) before this function
            // returns, so everything it borrows is still alive; a panic in between aborts the process.
            let j: Job = unsafe { std::mem::transmute::<Box<dyn FnOnce() + Send + 'a>, Job>(j) };
            p[i].tx.send(j).expect("pool thread alive");
        }
        let guard = AbortOnUnwind;
        let r = drive();
        for w in p.iter().take(n) {
            w.done.recv().expect("pool thread alive");
        }
        std::mem::forget(guard);
        r
    })
}

struct AbortOnUnwind;
impl Drop for AbortOnUnwind {
    fn drop(&mut self) {
        eprintln!("MACHINERY-ERROR: the thread scheduler failed while controlled threads were running");
        std::process::abort();
    }
}
