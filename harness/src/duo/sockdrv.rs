//! Socket-level event driver: several real `UtpSocket`s on one SimNet; scripted connect / accept /
//! cancel / raw-SYN / close events, issued one per settle period or grouped into one instant.

use std::{
    collections::BTreeMap,
    future::Future,
    net::{IpAddr, Ipv4Addr, SocketAddr},
    sync::Arc,
    time::Duration,
};

use librqbit_utp::UtpSocket;
use parking_lot::Mutex;
use serde::{Deserialize, Serialize};
use tokio::io::{AsyncReadExt, AsyncWriteExt};
use tokio_util::sync::CancellationToken;

use super::scenario::{build_runtime, coded, lite, SockCfg, WireEventLite};
use super::sim::*;

#[derive(Clone, Debug, Serialize, Deserialize, PartialEq, Eq, Hash)]
pub enum Ev {
    /// real connect from socket `from` to socket `to`; on success the connector writes its token + payload
    Connect { from: u8, to: u8 },
    /// connect from socket `from` to a silent fake peer address (never answered unless RawSynAck)
    ConnectFake { from: u8, fake: u8 },
    /// drop the n-th connect future (by issue order) if it is still pending
    ConnectCancel(u8),
    Accept { sock: u8 },
    /// drop the n-th accept future (by issue order) if it is still pending
    AcceptCancel(u8),
    /// a SYN from fake peer `fake` arrives at socket `to`
    RawSyn { to: u8, fake: u8 },
    /// the same, arriving in this very instant (for ties with other socket events)
    RawSynNow { to: u8, fake: u8 },
    /// `n` SYNs from fresh fake peers (ids base..base+n) arrive at socket `to`
    RawSynBurst { to: u8, base: u8, n: u8 },
    /// answer the SYN that socket `from` sent to fake peer `fake` with a SYN-ACK
    RawSynAck { from: u8, fake: u8 },
    /// a state packet from fake peer `fake` that acknowledges the SYN socket `from` sent to it but carries
    /// another connection id (id of the SYN + `delta`): a late packet of an older connection, or a forgery
    RawSynAckOtherId { from: u8, fake: u8, delta: u16 },
    /// a SYN from a fresh peer with an IPv6 address (a dual-stack socket sees both families)
    RawSynV6 { to: u8, fake: u8 },
    /// drop the oldest still-open stream held by the harness
    CloseOldest,
    /// let 50 ms of virtual time pass (several round trips)
    Settle,
    /// let `ms` of virtual time pass
    Wait(u64),
    /// a stray datagram: kind 0 = DATA from an unknown address, 1 = DATA with an unknown connection id
    /// from fake peer 0, 2 = RESET aimed at the newest connection's id from the wrong address,
    /// 3 = FIN with the newest connection's receive id from its real peer address + 1000 sequence offset
    Stray { to: u8, kind: u8 },
    /// wait (at most 6 s) for the next connection object to die and, in that very instant, deliver to
    /// socket `to` a DATA packet for the dead connection's receive key and a fresh SYN from the same
    /// fake peer with the same id (a peer that reconnects at once): the dead connection's queued
    /// clean-up request then races with the new connection for the same table key
    ReuseKeyAtDeath { to: u8, fake: u8 },
    /// the same two datagrams, sent so that they arrive at the absolute virtual time `at_us` (taken from a
    /// first run: the instant the connection object dies), i.e. they may already be queued at the socket
    /// when the clean-up request is
    ReuseKeyAt { to: u8, fake: u8, at_us: u64 },
    /// record (live connection objects, connection-table entries) of socket `to`
    ProbeTable { to: u8 },
}

#[derive(Clone, Debug, Serialize, Deserialize, PartialEq)]
pub struct SockScript {
    pub cfgs: Vec<SockCfg>,
    /// (event, issued in the same instant as the previous one)
    pub events: Vec<(Ev, bool)>,
    pub rng_seed: u64,
    pub latency_us: u64,
    /// fault plan on socket send indices
    #[serde(default)]
    pub plan: Vec<(usize, Fate)>,
}

pub fn sock_addr(i: u8) -> SocketAddr {
    SocketAddr::new(IpAddr::V4(Ipv4Addr::new(10, 0, 1, 1 + i)), 4000 + i as u16)
}
pub fn fake_addr(i: u8) -> SocketAddr {
    SocketAddr::new(IpAddr::V4(Ipv4Addr::new(10, 9, 0, 1 + i)), 9000 + i as u16)
}
pub fn fake_conn_id(i: u8) -> u16 {
    7000 + 10 * i as u16
}
pub fn fake_isn(i: u8) -> u16 {
    30_000 + 100 * i as u16
}

#[derive(Clone, Debug, Serialize)]
pub enum Done {
    Pending,
    Cancelled,
    Ok { remote: SocketAddr, token: Option<u64>, payload_ok: bool },
    Err(String),
}

#[derive(Clone, Debug, Serialize)]
pub struct CallRec {
    pub sock: u8,
    pub issued_us: u64,
    pub done_us: Option<u64>,
    pub done: Done,
    /// for connects: the peer address
    pub target: Option<SocketAddr>,
}

#[derive(Clone, Debug, Default, Serialize)]
pub struct SockLog {
    pub wire: Vec<WireEventLite>,
    pub wire_from: Vec<SocketAddr>,
    pub wire_to: Vec<SocketAddr>,
    pub connects: Vec<CallRec>,
    pub accepts: Vec<CallRec>,
    pub max_streams_seen: Vec<usize>,
    pub streams_at_end: Vec<usize>,
    pub connecting_at_end: Vec<usize>,
    pub live_at_end: usize,
    pub arms: Vec<(SocketAddr, u8)>,
    pub panicked: Option<String>,
    pub end_us: u64,
    pub trace_hash: u64,
    /// creation (true) / destruction (false) of connection objects: (virtual us, created, remote, send id)
    pub lifecycle: Vec<(u64, bool, SocketAddr, u16)>,
    /// per still-open stream: did the bytes read so far match the connector's coded stream
    pub streams_open_at_end: usize,
    pub event_times: Vec<u64>,
    /// (time, live connection objects on this runtime, entries in the probed socket's table)
    pub table_probes: Vec<(u64, usize, usize)>,
    /// ReuseKeyAtDeath: did a connection object die within the wait
    pub reuse_hit: Vec<bool>,
}

struct Shared {
    connects: Vec<CallRec>,
    accepts: Vec<CallRec>,
    /// streams kept open by the harness (in order of establishment): (kind 'c'/'a', index, stream)
    open: Vec<(char, usize, librqbit_utp::UtpStream)>,
}

type AcceptFut = std::pin::Pin<Box<dyn std::future::Future<Output = ()> + Send>>;

/// Lets `dur` of virtual time pass while the accept futures the harness holds keep being polled.
async fn pause(dur: Duration, futs: &mut Vec<Option<AcceptFut>>) {
    let sleep = tokio::time::sleep(dur);
    tokio::pin!(sleep);
    std::future::poll_fn(|cx| {
        for f in futs.iter_mut() {
            if let Some(fut) = f {
                if fut.as_mut().poll(cx).is_ready() {
                    *f = None;
                }
            }
        }
        sleep.as_mut().poll(cx)
    })
    .await
}

fn raw_header(ptype: u8, conn_id: u16, seq: u16, ack: u16, wnd: u32, payload: &[u8]) -> Vec<u8> {
    let mut b = vec![0u8; 20];
    b[0] = (ptype << 4) | 1;
    b[2..4].copy_from_slice(&conn_id.to_be_bytes());
    b[12..16].copy_from_slice(&wnd.to_be_bytes());
    b[16..18].copy_from_slice(&seq.to_be_bytes());
    b[18..20].copy_from_slice(&ack.to_be_bytes());
    b.extend_from_slice(payload);
    b
}

pub fn token_of(connect_idx: usize) -> u64 {
    0xC0DE_0000_0000 + connect_idx as u64 * 0x0101
}

pub fn run(script: &SockScript) -> SockLog {
    librqbit_utp::verif::gauges_reset();
    crate::duo::sim::spin_reset();
    let describe = || serde_json::json!({"engine": "sock", "kind": "watchdog", "script": script});
    let _guard = crate::common::RunGuard::new(&describe);
    let rt = build_runtime(script.rng_seed);
    let res = std::panic::catch_unwind(std::panic::AssertUnwindSafe(|| rt.block_on(run_async(script))));
    let mut log = match res {
        Ok(l) => l,
        Err(p) => {
            let msg = p.downcast_ref::<String>().cloned().or_else(|| p.downcast_ref::<&str>().map(|s| s.to_string())).unwrap_or_else(|| "panic".into());
            SockLog { panicked: Some(msg), ..Default::default() }
        }
    };
    drop(rt);
    crate::duo::sim::spin_disarm();
    if crate::duo::sim::spin_tripped() && log.panicked.is_none() {
        log.panicked = Some(format!("livelock: {} polls at one virtual instant", crate::duo::sim::SPIN_LIMIT));
    }
    log
}

async fn run_async(script: &SockScript) -> SockLog {
    let net = SimNet::new(&script.plan, PathCfg { latency_us: script.latency_us, blackhole_above: None, emsgsize_above: None }, Triggers::default());
    let net_task = tokio::spawn(net.clone().run());
    let mut socks: Vec<Arc<UtpSocket<SimTransport, VEnv>>> = vec![];
    for (i, c) in script.cfgs.iter().enumerate() {
        let s = UtpSocket::new_with_opts(net.transport(sock_addr(i as u8)), VEnv::new(&c.randoms), c.opts(CancellationToken::new())).expect("socket");
        socks.push(s);
    }
    let shared = Arc::new(Mutex::new(Shared { connects: vec![], accepts: vec![], open: vec![] }));
    let mut connect_tasks: Vec<Option<tokio::task::JoinHandle<()>>> = vec![];
    let mut accept_futs: Vec<Option<AcceptFut>> = vec![];
    let mut event_times = vec![];
    let mut table_probes: Vec<(u64, usize, usize)> = vec![];
    let mut reuse_hit: Vec<bool> = vec![];
    let mut task_panic: Option<String> = None;

    for (ev, same_instant) in &script.events {
        if !*same_instant {
            // everything runnable runs before the next event is issued
            pause(Duration::from_micros(1), &mut accept_futs).await;
        }
        // same instant: issued back to back, nothing else runs in between (accept futures get their
        // first poll when they are issued; spawned connects and deliveries run at the next pause)
        let now = net.now_us();
        event_times.push(now);
        match ev {
            Ev::Connect { from, to } | Ev::ConnectFake { from, fake: to } => {
                let target = if matches!(ev, Ev::Connect { .. }) { sock_addr(*to) } else { fake_addr(*to) };
                let idx = {
                    let mut g = shared.lock();
                    g.connects.push(CallRec { sock: *from, issued_us: now, done_us: None, done: Done::Pending, target: Some(target) });
                    g.connects.len() - 1
                };
                let s = socks[*from as usize].clone();
                let sh = shared.clone();
                let netc = net.clone();
                connect_tasks.push(Some(tokio::spawn(async move {
                    let r = s.connect(target).await;
                    let t = netc.now_us();
                    match r {
                        Ok(mut stream) => {
                            // the connector speaks first: token + position-coded payload
                            let tok = token_of(idx);
                            let mut msg = tok.to_be_bytes().to_vec();
                            msg.extend((0..32u64).map(|i| coded(i, (idx as u8).wrapping_mul(17).wrapping_add(3))));
                            let w = stream.write_all(&msg).await;
                            {
                                let mut g = sh.lock();
                                g.connects[idx].done_us = Some(t);
                                g.connects[idx].done = match &w {
                                    Ok(()) => Done::Ok { remote: target, token: Some(tok), payload_ok: true },
                                    Err(e) => Done::Err(format!("connected, then write failed: {e}")),
                                };
                            }
                            if w.is_ok() && target.ip().to_string().starts_with("10.0.1.") {
                                // a real acceptor answers with 24 bytes coded with the connector's salt + 1
                                let mut back = [0u8; 24];
                                let rr = tokio::time::timeout(Duration::from_secs(3), stream.read_exact(&mut back)).await;
                                if let Ok(Ok(_)) = rr {
                                    let ok = (0..24u64).all(|i| back[i as usize] == coded(i, (idx as u8).wrapping_mul(17).wrapping_add(4)));
                                    if !ok {
                                        sh.lock().connects[idx].done = Done::Ok { remote: target, token: Some(tok), payload_ok: false };
                                    }
                                }
                            }
                            sh.lock().open.push(('c', idx, stream));
                        }
                        Err(e) => {
                            let mut g = sh.lock();
                            g.connects[idx].done_us = Some(t);
                            g.connects[idx].done = Done::Err(e.to_string());
                        }
                    }
                })));
            }
            Ev::ConnectCancel(n) => {
                if let Some(Some(h)) = connect_tasks.get(*n as usize) {
                    let pending = matches!(shared.lock().connects[*n as usize].done, Done::Pending);
                    if pending {
                        h.abort();
                        shared.lock().connects[*n as usize].done = Done::Cancelled;
                        shared.lock().connects[*n as usize].done_us = Some(now);
                    }
                }
            }
            Ev::Accept { sock } => {
                let idx = {
                    let mut g = shared.lock();
                    g.accepts.push(CallRec { sock: *sock, issued_us: now, done_us: None, done: Done::Pending, target: None });
                    g.accepts.len() - 1
                };
                let s = socks[*sock as usize].clone();
                let sh = shared.clone();
                let netc = net.clone();
                let mut fut: AcceptFut = Box::pin(async move {
                    let r = s.accept().await;
                    let t = netc.now_us();
                    match r {
                        Ok(mut stream) => {
                            let remote = stream.remote_addr();
                            {
                                let mut g = sh.lock();
                                g.accepts[idx].done_us = Some(t);
                                g.accepts[idx].done = Done::Ok { remote, token: None, payload_ok: true };
                            }
                            // a real connector sends 40 bytes; a fake peer never does
                            let mut buf = [0u8; 40];
                            let rr = tokio::time::timeout(Duration::from_secs(3), stream.read_exact(&mut buf)).await;
                            if let Ok(Ok(_)) = rr {
                                let tok = u64::from_be_bytes(buf[..8].try_into().unwrap());
                                let cidx = ((tok.wrapping_sub(0xC0DE_0000_0000)) / 0x0101) as usize;
                                let ok = (0..32u64).all(|i| buf[8 + i as usize] == coded(i, (cidx as u8).wrapping_mul(17).wrapping_add(3)));
                                sh.lock().accepts[idx].done = Done::Ok { remote, token: Some(tok), payload_ok: ok };
                                let back: Vec<u8> = (0..24u64).map(|i| coded(i, (cidx as u8).wrapping_mul(17).wrapping_add(4))).collect();
                                let _ = stream.write_all(&back).await;
                            }
                            sh.lock().open.push(('a', idx, stream));
                        }
                        Err(e) => {
                            let mut g = sh.lock();
                            g.accepts[idx].done_us = Some(t);
                            g.accepts[idx].done = Done::Err(e.to_string());
                        }
                    }
                });
                // the first poll happens right here (the request is enqueued at the socket); later polls
                // happen whenever the harness waits; dropping it (AcceptCancel) is synchronous
                let first = std::future::poll_fn(|cx| std::task::Poll::Ready(fut.as_mut().poll(cx).is_ready())).await;
                accept_futs.push(if first { None } else { Some(fut) });
            }
            Ev::AcceptCancel(n) => {
                if let Some(slot) = accept_futs.get_mut(*n as usize) {
                    let pending = matches!(shared.lock().accepts[*n as usize].done, Done::Pending);
                    if pending && slot.is_some() {
                        *slot = None; // dropped right now, before the socket dispatcher runs again
                        shared.lock().accepts[*n as usize].done = Done::Cancelled;
                        shared.lock().accepts[*n as usize].done_us = Some(now);
                    }
                }
            }
            Ev::RawSyn { to, fake } => {
                net.inject_now(fake_addr(*fake), sock_addr(*to), raw_header(4, fake_conn_id(*fake), fake_isn(*fake), 0, 0, &[]));
            }
            Ev::RawSynNow { to, fake } => {
                net.inject_with_latency(fake_addr(*fake), sock_addr(*to), raw_header(4, fake_conn_id(*fake), fake_isn(*fake), 0, 0, &[]), false);
            }
            Ev::RawSynBurst { to, base, n } => {
                for k in 0..*n {
                    let fk = base.wrapping_add(k);
                    net.inject_now(fake_addr(fk), sock_addr(*to), raw_header(4, fake_conn_id(fk), fake_isn(fk), 0, 0, &[]));
                }
            }
            Ev::RawSynAck { from, fake } => {
                // find the SYN that socket `from` sent to the fake peer
                let log = net.snapshot_log();
                if let Some(w) = log.iter().rev().find(|w| w.from == sock_addr(*from) && w.to == fake_addr(*fake) && w.hdr.as_ref().map(|h| h.ptype == 4).unwrap_or(false)) {
                    let h = w.hdr.as_ref().unwrap();
                    net.inject_now(fake_addr(*fake), sock_addr(*from), raw_header(2, h.conn_id, fake_isn(*fake), h.seq, 1 << 20, &[]));
                }
            }
            Ev::RawSynAckOtherId { from, fake, delta } => {
                let log = net.snapshot_log();
                if let Some(w) = log.iter().rev().find(|w| w.from == sock_addr(*from) && w.to == fake_addr(*fake) && w.hdr.as_ref().map(|h| h.ptype == 4).unwrap_or(false)) {
                    let h = w.hdr.as_ref().unwrap();
                    net.inject_now(fake_addr(*fake), sock_addr(*from), raw_header(2, h.conn_id.wrapping_add(*delta), fake_isn(*fake), h.seq, 1 << 20, &[]));
                }
            }
            Ev::RawSynV6 { to, fake } => {
                let from = SocketAddr::new(IpAddr::V6(std::net::Ipv6Addr::new(0xfd00, 0, 0, 0, 0, 0, 0, 1 + *fake as u16)), 9000 + *fake as u16);
                net.inject_now(from, sock_addr(*to), raw_header(4, fake_conn_id(*fake), fake_isn(*fake), 0, 0, &[]));
            }
            Ev::CloseOldest => {
                let mut g = shared.lock();
                if !g.open.is_empty() {
                    let s = g.open.remove(0);
                    drop(g);
                    drop(s);
                }
            }
            Ev::Settle => pause(Duration::from_millis(50), &mut accept_futs).await,
            Ev::Wait(ms) => pause(Duration::from_millis(*ms), &mut accept_futs).await,
            Ev::ReuseKeyAtDeath { to, fake } => {
                let dropped0 = librqbit_utp::verif::vsock_totals().1;
                let mut hit = false;
                'wait: for _ in 0..6000 {
                    pause(Duration::from_millis(1), &mut accept_futs).await;
                    // the connection's timer may fire after ours in the same instant: give it its turn
                    for _ in 0..3 {
                        if librqbit_utp::verif::vsock_totals().1 > dropped0 {
                            hit = true;
                            break 'wait;
                        }
                        tokio::task::yield_now().await;
                    }
                }
                reuse_hit.push(hit);
                if hit {
                    let id = fake_conn_id(*fake);
                    net.inject_with_latency(fake_addr(*fake), sock_addr(*to), raw_header(0, id.wrapping_add(1), fake_isn(*fake).wrapping_add(1), 0, 1 << 20, b"late"), false);
                    net.inject_with_latency(fake_addr(*fake), sock_addr(*to), raw_header(4, id, fake_isn(*fake).wrapping_add(100), 0, 0, &[]), false);
                }
            }
            Ev::ReuseKeyAt { to, fake, at_us } => {
                let lat = script.latency_us;
                let now_us = net.now_us();
                if *at_us > now_us + lat {
                    pause(Duration::from_micros(*at_us - lat - now_us), &mut accept_futs).await;
                }
                let id = fake_conn_id(*fake);
                net.inject_with_latency(fake_addr(*fake), sock_addr(*to), raw_header(0, id.wrapping_add(1), fake_isn(*fake).wrapping_add(1), 0, 1 << 20, b"late"), true);
                net.inject_with_latency(fake_addr(*fake), sock_addr(*to), raw_header(4, id, fake_isn(*fake).wrapping_add(100), 0, 0, &[]), true);
                reuse_hit.push(true);
            }
            Ev::ProbeTable { to } => {
                let live = librqbit_utp::verif::live_vsocks().len();
                let streams = librqbit_utp::verif::gauge(sock_addr(*to)).map(|g| g.streams).unwrap_or(0);
                table_probes.push((net.now_us(), live, streams));
            }
            Ev::Stray { to, kind } => {
                let log = net.snapshot_log();
                // the newest established connection towards `to` (its SYN-ACK on the wire tells the ids)
                let newest = log.iter().rev().find(|w| w.to == sock_addr(*to) && w.hdr.as_ref().map(|h| h.ptype == 0).unwrap_or(false));
                let bytes_from = match kind {
                    0 => Some((fake_addr(200), raw_header(0, 4242, 1, 1, 1000, b"stray"))),
                    1 => Some((fake_addr(0), raw_header(0, 4243, 77, 5, 1000, b"stray"))),
                    2 => newest.map(|w| (fake_addr(201), raw_header(3, w.hdr.as_ref().unwrap().conn_id, 0, 0, 0, &[]))),
                    3 => newest.map(|w| (w.from, raw_header(1, w.hdr.as_ref().unwrap().conn_id, w.hdr.as_ref().unwrap().seq.wrapping_add(1000), 0, 0, &[]))),
                    // malformed datagrams from the live peer's address with the live connection's id:
                    // 4 truncated header, 5 protocol version 0, 6 extension chain running past the end,
                    // 7 packet type 7 - all must be discarded without a trace
                    4 => newest.map(|w| (w.from, raw_header(0, w.hdr.as_ref().unwrap().conn_id, 1, 1, 1000, &[])[..10].to_vec())),
                    5 => newest.map(|w| {
                        let mut b = raw_header(0, w.hdr.as_ref().unwrap().conn_id, w.hdr.as_ref().unwrap().seq, 0, 1000, b"v0");
                        b[0] &= 0xf0;
                        (w.from, b)
                    }),
                    6 => newest.map(|w| {
                        let mut b = raw_header(2, w.hdr.as_ref().unwrap().conn_id, w.hdr.as_ref().unwrap().seq, w.hdr.as_ref().unwrap().ack, 1000, &[1, 255, 0xff, 0xff]);
                        b[1] = 1;
                        (w.from, b)
                    }),
                    7 => newest.map(|w| {
                        let mut b = raw_header(0, w.hdr.as_ref().unwrap().conn_id, w.hdr.as_ref().unwrap().seq, 0, 1000, &[]);
                        b[0] = (7 << 4) | 1;
                        (w.from, b)
                    }),
                    // aimed at the live connection, well-formed but absurd: 8 a 36-byte selective ACK of ones with
                    // an ack number far ahead, 9 a SYN carrying the live connection's id
                    8 => newest.map(|w| {
                        let mut ext = vec![0u8, 36];
                        ext.extend_from_slice(&[0xff; 36]);
                        let mut b = raw_header(2, w.hdr.as_ref().unwrap().conn_id, w.hdr.as_ref().unwrap().seq, w.hdr.as_ref().unwrap().ack.wrapping_add(30000), 0, &ext);
                        b[1] = 1;
                        (w.from, b)
                    }),
                    // (the id a SYN must carry to produce the live connection's receive key at `to`: one below
                    // the id its peer sends data with - a network duplicate or replay of the original SYN)
                    _ => newest.map(|w| (w.from, raw_header(4, w.hdr.as_ref().unwrap().conn_id.wrapping_sub(1), 7777, 0, 0, &[]))),
                };
                if let Some((from, b)) = bytes_from {
                    net.inject_now(from, sock_addr(*to), b);
                }
            }
        }
    }
    // let everything play out: SYN-ACK retries to fake peers end after max_retx x 200 ms
    pause(Duration::from_millis(4500), &mut accept_futs).await;
    accept_futs.clear();
    for h in connect_tasks.iter_mut() {
        if let Some(h) = h.take() {
            if h.is_finished() {
                if let Err(e) = h.await {
                    if e.is_panic() {
                        task_panic = Some(format!("task panicked: {e}"));
                    }
                }
            } else {
                h.abort();
            }
        }
    }
    let mut out = SockLog::default();
    out.end_us = net.now_us();
    out.event_times = event_times;
    out.table_probes = table_probes;
    out.reuse_hit = reuse_hit;
    {
        let g = shared.lock();
        out.connects = g.connects.clone();
        out.accepts = g.accepts.clone();
        out.streams_open_at_end = g.open.len();
    }
    for i in 0..script.cfgs.len() {
        let a = sock_addr(i as u8);
        out.max_streams_seen.push(librqbit_utp::verif::gauge_max_streams_seen(a));
        let g = librqbit_utp::verif::gauge(a);
        out.streams_at_end.push(g.map(|g| g.streams).unwrap_or(0));
        out.connecting_at_end.push(g.map(|g| g.connecting).unwrap_or(0));
    }
    out.live_at_end = librqbit_utp::verif::live_vsocks().len();
    out.lifecycle = librqbit_utp::verif::vsock_lifecycle().into_iter().map(|(t, c, r, id)| (net.us_of(t), c, r, id)).collect();
    out.arms = librqbit_utp::verif::take_arms();
    net_task.abort();
    let (wire, _) = net.take_log();
    out.wire_from = wire.iter().map(|w| w.from).collect();
    out.wire_to = wire.iter().map(|w| w.to).collect();
    out.wire = wire.iter().map(|w| lite(w, sock_addr(0))).collect();
    out.panicked = task_panic;
    out.trace_hash = {
        use std::hash::{Hash, Hasher};
        let mut h = rustc_hash::FxHasher::default();
        for (i, w) in out.wire.iter().enumerate() {
            (w.t_us, out.wire_from[i], out.wire_to[i], w.ptype, w.conn_id, w.seq, w.ack, w.len).hash(&mut h);
        }
        for c in out.connects.iter().chain(out.accepts.iter()) {
            (c.issued_us, c.done_us, format!("{:?}", c.done)).hash(&mut h);
        }
        h.finish()
    };
    // keep streams alive until here
    drop(shared);
    let _ = BTreeMap::<u8, u8>::new();
    out
}
