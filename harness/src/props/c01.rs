//! C01 byte-stream integrity.

use crate::common::*;
use crate::duo::{explore::*, lib, oracles, scenario::*};
use serde_json::json;

pub fn judge(_scn: &Scenario, _p: &Plan, l: &RunLog) -> Vec<oracles::Finding> {
    let mut v = oracles::integrity(l);
    v.extend(oracles::no_panic_no_bug(l));
    v.extend(oracles::emitted_wellformed(l));
    v
}

pub fn duo_part(ctx: &Ctx, out: &mut Outcome, scn: &Scenario, max_dev: usize, max_runs: u64) {
    let always = |_: &RunLog, _: &WireEventLite| true;
    let cfg = ExploreCfg { max_dev, min_k: 1, fates: fates_basic(), eligible: &always, judge: &judge, max_runs };
    let r = explore(ctx, scn, &cfg);
    let mut p = Part::fe(&format!("duo:{}", scn.name));
    p.evaluations = r.runs;
    p.distinct_nontrivial = r.distinct_traces;
    p.distinct_outcomes = r.outcome_classes.len() as u64;
    p.bound = format!("all fault plans with <= {} deviations (drop/dup/delay 15 ms/delay 300 ms at any send index >= 1); per level {:?}; up to {} sends per run", r.completed_bound, r.per_level, r.max_sends);
    if let Some(c) = &r.capped {
        p.caps_hit.push(c.clone());
        p.exhaustive = false;
    }
    p.extra.insert("outcome_classes".into(), json!(r.outcome_classes));
    p.extra.insert("datagrams_validated_by_reference_parser".into(), json!(r.datagrams_validated));
    p.samples.push(json!({"scenario": scn.name, "plan": "[] (fault-free)"}));
    if let Some((_, pl)) = r.findings.first() {
        p.samples.push(json!({"scenario": scn.name, "plan": pl}));
    } else {
        p.samples.push(json!({"scenario": scn.name, "plan": [[3, "Drop"]]}));
    }
    out.violations.extend(findings_to_violations(scn, &r.findings, &judge));
    out.parts.push(p);
}

pub fn run(ctx: &Ctx) -> Outcome {
    let mut out = Outcome::default();
    let core = lib::core();
    for (i, scn) in core.iter().enumerate() {
        let dev = match ctx.tier {
            Tier::Quick => 2,
            Tier::Thorough => if i < 2 { 4 } else { 3 },
        };
        duo_part(ctx, &mut out, scn, dev, ctx.tier.pick(60_000, 6_000_000));
    }
    out.merge(mtu_family(ctx));
    // the bytes on the wire, per sequence number, in every state of the retransmission and probing drivers
    {
        use super::solo_drivers::*;
        run_and_report(ctx, &rtx(ctx.tier, 5, true, ctx.tier.pick(6, 8)), &mut out);
        // acknowledgements riding on the peer's data and FIN packets (ahead of a gap too), with the local
        // transport refusing a datagram now and then
        run_and_report(ctx, &rtx_piggyback(ctx.tier, ctx.tier.pick(6, 8)), &mut out);
        run_and_report(ctx, &mtu(ctx.tier, 700, Some(600), None, 1, ctx.tier.pick(6, 8)), &mut out);
        run_and_report(ctx, &mtu(ctx.tier, 700, None, Some(620), 1, ctx.tier.pick(6, 8)), &mut out);
        run_and_report(ctx, &rx(ctx.tier, 4, vec![MSS, 1], ctx.tier.pick(6, 8)), &mut out);
        run_and_report(ctx, &rx_vectored(ctx.tier, ctx.tier.pick(6, 8)), &mut out);
        // reader, writer and connection on different threads: what poll_read returns under every
        // interleaving of their critical sections
        use crate::solo::threads::*;
        let tc = ThreadsCfg { base_depth: ctx.tier.pick(2, 3), preemption_bound: ctx.tier.pick(Some(2), Some(3)), max_runs_per_case: ctx.tier.pick(2_000, 100_000), with_suffix: true, triples: true, doubles: true, budget_share: 0.3 };
        explore_threads(ctx, &rx(ctx.tier, 4, vec![MSS, 1], 0), &tc, &mut out);
        let tc2 = ThreadsCfg { base_depth: ctx.tier.pick(1, 2), with_suffix: false, ..tc };
        explore_threads(ctx, &close_plain(ctx.tier, 0), &tc2, &mut out);
        // writer || connection while the TX ring grows (the bytes that reach the wire afterwards)
        let tc3 = ThreadsCfg { base_depth: ctx.tier.pick(1, 2), with_suffix: true, triples: false, ..tc };
        explore_threads(ctx, &tx_grow(ctx.tier, 0), &tc3, &mut out);
        // a size probe that was selectively acknowledged, lost, expired, re-cut
        run_and_report(ctx, &mtu_probe_sacked(ctx.tier, 0, ctx.tier.pick(5, 7)), &mut out);
        run_and_report(ctx, &mtu_probe_sacked(ctx.tier, 1, ctx.tier.pick(5, 7)), &mut out);
        run_and_report(ctx, &mtu_probe_sacked_bidir(ctx.tier, 0, ctx.tier.pick(6, 8)), &mut out);
        run_and_report(ctx, &mtu_probe_sacked_bidir(ctx.tier, 1, ctx.tier.pick(6, 8)), &mut out);
    }
    out.rule = "C01: fault plans enumerated by iterative deviation bounding over generated scenarios; distinct_nontrivial = executions with a distinct (timed) datagram+application trace".into();
    out.assumptions.push("payload is position-coded (period 251 with carry), so a wrong offset, duplicate or swap is visible in the data".into());
    out.assumptions.push("two-socket runs: applications and sockets run on one seeded current-thread runtime under tokio's paused clock; thread interleavings between the stream halves and the connection are explored in the threads:* parts (lock-granularity schedules of 2-3 real threads)".into());
    out
}

fn judge_mtu(scn: &Scenario, p: &Plan, l: &RunLog) -> Vec<oracles::Finding> {
    let mut v = judge(scn, p, l);
    // the same facts decide C14's end-to-end clauses
    let mut extra = vec![];
    for f in &v {
        if f.property == "C01" {
            let mut g = f.clone();
            g.property = "C14";
            if !g.signature.starts_with("probe/") {
                g.signature = format!("mtu/{}", g.signature);
            }
            extra.push(g);
        }
    }
    v.extend(extra);
    v.extend(oracles::mtu_wire(scn, l, p.is_empty()));
    v
}

/// size-blackhole / EMSGSIZE path family (MTU probing active: link MTU > 576), both address families
pub fn mtu_family(ctx: &Ctx) -> Outcome {
    let mut out = Outcome::default();
    let grid: Vec<(usize, Option<usize>, Option<usize>, bool)> = match ctx.tier {
        Tier::Quick => vec![
            (700, None, None, false),
            (700, Some(600), None, false),
            (700, Some(640), None, false),
            (700, None, Some(620), false),
            (1500, Some(1000), None, false),
            (1500, None, Some(1300), false),
            (900, Some(599), None, false),
            (1500, None, None, true),
            (1400, Some(1320), None, true),
            // jumbo links: the first probe sizes exceed the initial congestion window
            (9000, None, None, false),
            (4000, Some(3000), None, false),
            (9000, Some(5000), None, true),
            // beyond 16 KiB: datagrams larger than a conservative receive buffer
            (20_000, None, None, false),
            (40_000, Some(30_000), None, false),
        ],
        Tier::Thorough => {
            let mut g = vec![];
            for (lm, bh, v6) in [(4000usize, None, false), (4000, Some(3000usize), false), (9000, None, false), (9000, Some(5000), true), (9000, Some(1600), false), (65_000, None, false), (65_000, Some(9000), true)] {
                g.push((lm, bh, None, v6));
            }
            for (lm, v6) in [(600usize, false), (700, false), (1500, false), (1500, true), (1340, true)] {
                g.push((lm, None, None, v6));
                let lo = if v6 { 1253 } else { 549 };
                let hi = lm - if v6 { 48 } else { 28 };
                let mut sz = lo + 3;
                while sz < hi {
                    g.push((lm, Some(sz), None, v6));
                    g.push((lm, None, Some(sz), v6));
                    sz += if hi - lo > 400 { 97 } else { 13 };
                }
            }
            g
        }
    };
    let mut scns: Vec<(Scenario, Vec<crate::duo::sim::Fate>)> = vec![];
    for (lm, bh, em, v6) in grid {
        let bytes = if lm > 2000 { 80 * lm } else { 60_000 };
        let mut scn = lib::mtu_transfer(lm, bh, em, bytes, v6);
        if lm > 2000 {
            for c in [&mut scn.a, &mut scn.b] {
                c.rx_buf = 1 << 20;
                c.tx_init = 1 << 18;
                c.tx_max = 1 << 20;
            }
        }
        scns.push((scn, vec![crate::duo::sim::Fate::Drop]));
    }
    // probes that are delivered but acknowledged late (delay past the RTO) with and without probe retransmissions
    for retx in [0usize, 1] {
        let mut s = lib::mtu_transfer(700, None, None, 12_000, false);
        s.a.probe_retx = retx;
        s.name = format!("{}-proberetx{}", s.name, retx);
        scns.push((s, vec![crate::duo::sim::Fate::Drop, crate::duo::sim::Fate::Delay(300_000), crate::duo::sim::Fate::Delay(700_000)]));
    }
    for (scn, fates) in scns {
        let always = |_: &RunLog, _: &WireEventLite| true;
        let cfg = ExploreCfg { max_dev: ctx.tier.pick(1, 2), min_k: 1, fates, eligible: &always, judge: &judge_mtu, max_runs: ctx.tier.pick(3_000, 200_000) };
        let r = explore(ctx, &scn, &cfg);
        let mut p = Part::fe(&format!("duo:{}", scn.name));
        p.evaluations = r.runs;
        p.distinct_nontrivial = r.distinct_traces;
        p.distinct_outcomes = r.outcome_classes.len() as u64;
        p.bound = format!("bulk transfer with MTU probing, all plans of <= {} deviation(s) on top of the path's size blackhole / EMSGSIZE; per level {:?}", r.completed_bound, r.per_level);
        if let Some(c) = &r.capped {
            p.caps_hit.push(c.clone());
            p.exhaustive = false;
        }
        p.samples.push(json!({"scenario": scn.name, "plan": []}));
        out.violations.extend(findings_to_violations(&scn, &r.findings, &judge_mtu));
        out.parts.push(p);
    }
    out
}
