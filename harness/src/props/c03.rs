//! C03 honest completion: every cut / reset / cancel point of every core scenario, plus loss
//! patterns restricted to the FIN exchange.

use crate::common::*;
use crate::duo::{explore::*, lib, oracles, scenario::*, sim::Fate};
use rayon::prelude::*;
use serde_json::json;

/// inactivity 3 s + RTO back-off sum for 5 retransmissions (0.2+0.4+0.8+1.6+3.2) + 1 s final chance + slack
pub const BOUND_US: u64 = 3_000_000 + 6_200_000 + 1_000_000 + 1_000_000;

pub fn prepare(mut s: Scenario) -> Scenario {
    s.a.inactivity_ms = 3_000;
    s.b.inactivity_ms = 3_000;
    s.horizon_s = 60;
    // later calls on halves that are still held when the connection is gone
    for app in [&mut s.app_a, &mut s.app_b] {
        if !app.writer.iter().any(|o| matches!(o, WOp::Drop)) {
            app.writer.push(WOp::ProbeAfterDeath);
        }
        if !app.reader.iter().any(|o| matches!(o, ROp::Drop)) {
            app.reader.push(ROp::ProbeAfterDeath);
        }
    }
    s.name = format!("{}+probe", s.name);
    s
}

fn abort_time(base: &RunLog, l: &RunLog, abort: &Abort) -> Option<u64> {
    let k = match abort {
        Abort::None => return None,
        Abort::CutAfter(k) | Abort::ResetTo(k, _) | Abort::CancelAt(k, _) => *k,
    };
    l.wire.iter().find(|w| w.k == k).map(|w| w.t_us).or_else(|| base.wire.iter().find(|w| w.k == k).map(|w| w.t_us))
}

pub fn judge_abort(scn: &Scenario, base: &RunLog, abort: &Abort, l: &RunLog) -> Vec<oracles::Finding> {
    let mut v = oracles::integrity(l);
    let hit: Vec<Side> = match abort {
        Abort::ResetTo(_, to_a) => vec![if *to_a { Side::A } else { Side::B }],
        Abort::CancelAt(_, a) => vec![if *a { Side::A } else { Side::B }],
        _ => vec![],
    };
    let desync = v.iter().any(|f| f.signature == "probe/acked-after-expiry-desynchronises-stream");
    let mut hc = oracles::honest_completion_hit(scn, l, &hit);
    if desync {
        // the two ends no longer agree on stream positions (known finding F18): what the EOF oracle sees is that
        for f in hc.iter_mut().filter(|f| f.signature.starts_with("eof/")) {
            f.signature = "probe/acked-after-expiry-desynchronises-stream".into();
        }
    }
    v.extend(hc);
    if let Some(ta) = abort_time(base, l, abort) {
        // a RESET is delivered one path latency after the trigger
        let ta = if matches!(abort, Abort::ResetTo(..)) { ta + scn.latency_us } else { ta };
        v.extend(oracles::bounded_failure("C03", l, ta, BOUND_US, &hit, false));
    }
    v.extend(oracles::errors_after_death(l));
    v.extend(oracles::no_panic_no_bug(l));
    v.extend(oracles::emitted_wellformed(l));
    v
}

fn judge_plan(scn: &Scenario, _p: &Plan, l: &RunLog) -> Vec<oracles::Finding> {
    let mut v = oracles::integrity(l);
    v.extend(oracles::honest_completion(scn, l));
    v.extend(oracles::errors_after_death(l));
    v.extend(oracles::no_panic_no_bug(l));
    v
}

pub fn aborts_for(n: usize, kinds: &[&str]) -> Vec<Abort> {
    let mut v = vec![];
    // from send index 2 on: the connection exists (SYN = #0 and SYN-ACK = #1 were delivered)
    for k in 2..n {
        for kind in kinds {
            match *kind {
                "cut" => v.push(Abort::CutAfter(k)),
                "reset" => {
                    if k >= 2 {
                        v.push(Abort::ResetTo(k, true));
                        v.push(Abort::ResetTo(k, false));
                    }
                }
                "cancel" => {
                    v.push(Abort::CancelAt(k, true));
                    v.push(Abort::CancelAt(k, false));
                }
                _ => {}
            }
        }
    }
    v
}

pub fn run(ctx: &Ctx) -> Outcome {
    let mut out = Outcome::default();
    // one real connection against a scripted peer (explicit-state BFS): what two cooperating sockets cannot
    // produce - a transport that refuses a datagram, a peer FIN ahead of a gap in every teardown state,
    // closing behind an MTU probe
    {
        use super::solo_drivers::*;
        run_and_report(ctx, &close_refused(ctx.tier, ctx.tier.pick(7, 9)), &mut out);
        for drv in fsm_all(ctx.tier, ctx.tier.pick(5, 6)).into_iter().filter(|d| d.name.contains("finwait") || d.name.contains("established") || d.name.contains("inflight")) {
            run_and_report(ctx, &drv, &mut out);
        }
        for (path, r) in [(None, 1usize), (Some(1000usize), 0)] {
            run_and_report(ctx, &mtu_close(ctx.tier, path, r, ctx.tier.pick(6, 7)), &mut out);
        }
    }
    let mut scns: Vec<Scenario> = lib::core().into_iter().map(prepare).collect();
    scns.push(prepare(lib::early_shutdown()));
    scns.push(prepare(lib::wrapped_drop_close()));
    scns.push(prepare(lib::mtu_drop_close(700, None, 6_000)));
    scns.push(prepare(lib::mtu_drop_close(700, Some(600), 6_000)));
    let n_scn = scns.len();
    for scn in scns.iter().take(n_scn) {
        let base = determinism_check(scn, &Abort::None);
        let mut cases: Vec<(Plan, Abort)> = aborts_for(base.n_sends, &["cut", "reset", "cancel"]).into_iter().map(|a| (vec![], a)).collect();
        {
            // one extra deviation (drop / dup / delay) before
            // every cut, RESET and cancellation; thorough: two
            let fates: Vec<Fate> = vec![Fate::Drop, Fate::Dup, Fate::Delay(300_000)];
            for i in 2..base.n_sends {
                for fate in &fates {
                    let l1 = crate::duo::scenario::run(scn, &[(i, *fate)], &Abort::None);
                    for k in (i + 1)..l1.n_sends {
                        cases.push((vec![(i, *fate)], Abort::CutAfter(k)));
                        {
                            for side in [true, false] {
                                cases.push((vec![(i, *fate)], Abort::ResetTo(k, side)));
                                cases.push((vec![(i, *fate)], Abort::CancelAt(k, side)));
                            }
                        }
                    }
                }
            }
        }
        if ctx.tier == Tier::Thorough {
            // two earlier deviations (drop / 300 ms delay) before every cut
            let two = [Fate::Drop, Fate::Dup, Fate::Delay(300_000)];
            let firsts: Vec<(usize, Fate, usize)> = (2..base.n_sends).flat_map(|i| two.iter().map(move |f| (i, *f))).collect::<Vec<_>>().par_iter().map(|(i, f)| (*i, *f, crate::duo::scenario::run(scn, &[(*i, *f)], &Abort::None).n_sends)).collect();
            let seconds: Vec<(Plan, usize)> = firsts
                .par_iter()
                .flat_map_iter(|(i, f1, n1)| {
                    let mut v = vec![];
                    for j in (*i + 1)..*n1 {
                        for f2 in two {
                            let plan = vec![(*i, *f1), (j, f2)];
                            let n2 = crate::duo::scenario::run(scn, &plan, &Abort::None).n_sends;
                            v.push((plan, n2));
                        }
                    }
                    v
                })
                .collect();
            for (plan, n2) in seconds {
                let j = plan[1].0;
                for k in (j + 1)..n2 {
                    cases.push((plan.clone(), Abort::CutAfter(k)));
                    for side in [true, false] {
                        cases.push((plan.clone(), Abort::ResetTo(k, side)));
                        cases.push((plan.clone(), Abort::CancelAt(k, side)));
                    }
                }
            }
        }
        let results: Vec<(Vec<oracles::Finding>, u64, String)> = cases
            .par_iter()
            .map(|(p, a)| {
                let l = crate::duo::scenario::run(scn, p, a);
                (judge_abort(scn, &base, a, &l), l.trace_hash, classify(&l))
            })
            .collect();
        let mut p = Part::fe(&format!("duo-abort:{}", scn.name));
        let mut seen = std::collections::HashSet::new();
        let mut classes = std::collections::BTreeMap::new();
        let mut best: std::collections::BTreeMap<String, (oracles::Finding, Plan, Abort)> = Default::default();
        for ((plan, a), (fs, h, c)) in cases.iter().zip(results) {
            p.evaluations += 1;
            if seen.insert(h) {
                p.distinct_nontrivial += 1;
            }
            *classes.entry(c).or_insert(0u64) += 1;
            for f in fs {
                best.entry(format!("{}|{}", f.property, f.signature)).or_insert((f, plan.clone(), a.clone()));
            }
        }
        p.distinct_outcomes = classes.len() as u64;
        p.bound = format!("every send index k of the run ({} sends) x {{network cut, RESET to either side, cancel of either socket}}{}", base.n_sends, if ctx.tier == Tier::Thorough { " + one earlier drop/dup/delay before every abort point + two earlier drops/dups/delays before every abort point" } else { " + one earlier drop/dup/delay before every abort point" });
        p.extra.insert("outcome_classes".into(), json!(classes));
        p.samples.push(json!({"scenario": scn.name, "abort": {"CutAfter": base.n_sends / 2}}));
        p.samples.push(json!({"scenario": scn.name, "abort": {"ResetTo": [3, true]}}));
        for (_, (f, plan, a)) in best {
            // reproduce twice
            for _ in 0..2 {
                let l = crate::duo::scenario::run(scn, &plan, &a);
                if !judge_abort(scn, &base, &a, &l).iter().any(|g| g.signature == f.signature) {
                    machinery_error(&format!("C03 finding {} did not reproduce", f.signature));
                }
            }
            out.violations.push(Violation {
                property: f.property.to_string(),
                monitor: f.monitor.to_string(),
                signature: f.signature.clone(),
                detail: format!("[scenario {} plan {:?} abort {:?}] {}", scn.name, plan, a, f.detail),
                replay: replay_json(scn, &plan, &a),
            });
        }
        out.parts.push(p);

        // loss patterns around the FIN exchange
        let fin_exchange = |l: &RunLog, w: &WireEventLite| {
            let first_fin = l.wire.iter().filter(|x| x.ptype == 1 && !x.injected).map(|x| x.k).min();
            match first_fin {
                Some(k0) => w.k >= k0,
                None => false,
            }
        };
        let cfg = ExploreCfg { max_dev: ctx.tier.pick(2, 3), min_k: 2, fates: vec![Fate::Drop, Fate::Dup, Fate::Delay(300_000)], eligible: &fin_exchange, judge: &judge_plan, max_runs: ctx.tier.pick(20_000, 500_000) };
        let r = explore(ctx, scn, &cfg);
        let mut p = Part::fe(&format!("duo-fin-exchange:{}", scn.name));
        p.evaluations = r.runs;
        p.distinct_nontrivial = r.distinct_traces;
        p.distinct_outcomes = r.outcome_classes.len() as u64;
        p.bound = format!("all plans of <= {} drop/dup/delay deviations restricted to the packets from the first FIN on; per level {:?}", r.completed_bound, r.per_level);
        if let Some(c) = &r.capped {
            p.caps_hit.push(c.clone());
            p.exhaustive = false;
        }
        p.samples.push(json!({"scenario": scn.name, "plan": "drop the first FIN and its first retransmission"}));
        out.violations.extend(findings_to_violations(scn, &r.findings, &judge_plan));
        out.parts.push(p);
    }
    out.rule = "C03: abort points enumerated exhaustively over the send indices of each scenario; FIN-exchange loss patterns by deviation bounding; distinct_nontrivial = executions with distinct timed traces".into();
    out.assumptions.push("inactivity timeout configured to 3 s; bound for 'resolves in bounded time' = 3 s + RTO back-off sum 6.2 s + 1 s final chance + 1 s slack".into());
    out.assumptions.push("lenient reading of 'resolves with an error': flush/shutdown may return Ok after an abort when every written byte had been acknowledged before".into());
    out
}
