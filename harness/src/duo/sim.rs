//! Virtual environment, simulated network and transport.

use std::{
    cmp::Reverse,
    collections::{BTreeMap, BinaryHeap, VecDeque},
    future::poll_fn,
    net::SocketAddr,
    sync::{
        atomic::{AtomicU16, Ordering},
        Arc,
    },
    task::Poll,
    time::Duration,
};

use librqbit_dualstack_sockets::PollSendToVectored;
use librqbit_utp::{verif::UtpEnvironment, Transport};
use parking_lot::Mutex;
use tokio::sync::{
    mpsc::{unbounded_channel, UnboundedReceiver, UnboundedSender},
    Notify,
};
use tokio_util::sync::CancellationToken;

use crate::exhaust::wire::{ref_parse_message, RefHeader};

/// One clock (tokio's paused clock) for protocol timers and tokio sleeps; scripted randomness.
#[derive(Clone)]
pub struct VEnv {
    script: Arc<Mutex<VecDeque<u16>>>,
    fallback: Arc<AtomicU16>,
}

impl VEnv {
    pub fn new(script: &[u16]) -> Self {
        VEnv {
            script: Arc::new(Mutex::new(script.iter().copied().collect())),
            fallback: Arc::new(AtomicU16::new(script.last().copied().unwrap_or(1000).wrapping_add(977))),
        }
    }
}

/// Livelock detection: every clock read (each connection poll does at least one) and every
/// transport poll is a tick; ticks at an unchanged virtual instant are counted, and a task that
/// keeps the runtime busy without the clock ever moving trips the limit. A legitimate run needs a
/// few thousand ticks per instant at most (a window's worth of segments).
pub const SPIN_LIMIT: u64 = 400_000;
thread_local! {
    /// (instant of the last tick, ticks at that instant, tripped, armed). Armed only while a duo / sock
    /// execution runs on this thread: the solo engine re-uses one paused runtime for thousands of
    /// executions whose clock legitimately never moves.
    static SPIN: std::cell::Cell<(Option<tokio::time::Instant>, u64, bool, bool)> = const { std::cell::Cell::new((None, 0, false, false)) };
}
/// Start of an execution: counter cleared and armed.
pub fn spin_reset() {
    SPIN.with(|c| c.set((None, 0, false, true)));
}
/// End of an execution: disarmed (the tripped flag stays readable).
pub fn spin_disarm() {
    SPIN.with(|c| {
        let (a, b, t, _) = c.get();
        c.set((a, b, t, false));
    });
}
pub fn spin_tripped() -> bool {
    SPIN.with(|c| c.get().2)
}
pub fn spin_tick() {
    let armed = SPIN.with(|c| c.get().3);
    if !armed {
        return;
    }
    let now = tokio::time::Instant::now();
    let trip = SPIN.with(|c| {
        let (last, n, tripped, armed) = c.get();
        if last == Some(now) {
            c.set((last, n + 1, tripped || n + 1 >= SPIN_LIMIT, armed));
            !tripped && n + 1 >= SPIN_LIMIT
        } else {
            c.set((Some(now), 0, tripped, armed));
            false
        }
    });
    if trip {
        panic!("verif livelock: {SPIN_LIMIT} polls at one virtual instant, the clock cannot advance");
    }
}

impl UtpEnvironment for VEnv {
    fn now(&self) -> std::time::Instant {
        spin_tick();
        tokio::time::Instant::now().into_std()
    }
    fn copy(&self) -> Self {
        self.clone()
    }
    fn random_u16(&self) -> u16 {
        if let Some(v) = self.script.lock().pop_front() {
            return v;
        }
        self.fallback.fetch_add(977, Ordering::Relaxed)
    }
}

#[derive(Clone, Copy, Debug, PartialEq, Eq, Hash, PartialOrd, Ord, serde::Serialize, serde::Deserialize)]
pub enum Fate {
    Deliver,
    Drop,
    Dup,
    /// extra delay in microseconds on top of the path latency
    Delay(u64),
}

/// What happened to one datagram handed to the network.
#[derive(Clone, Debug)]
pub struct WireEvent {
    pub k: usize,
    /// virtual microseconds since the start of the run
    pub t_us: u64,
    pub from: SocketAddr,
    pub to: SocketAddr,
    pub bytes: Vec<u8>,
    pub hdr: Option<RefHeader>,
    pub payload_len: usize,
    pub fate: Fate,
    /// lost because of the path (size blackhole), a cut, or a missing route - not a plan deviation
    pub path_lost: bool,
    /// rejected synchronously with EMSGSIZE (never on the wire)
    pub rejected: bool,
    /// injected by the harness (hostile / RESET), not sent by a socket
    pub injected: bool,
}

#[derive(Clone, Debug, Default)]
pub struct PathCfg {
    pub latency_us: u64,
    /// datagrams longer than this (uTP header + payload) are silently discarded
    pub blackhole_above: Option<usize>,
    /// sends longer than this fail with EMSGSIZE
    pub emsgsize_above: Option<usize>,
}

#[derive(Clone, Debug, Default)]
pub struct Triggers {
    /// everything sent with index >= k is lost (both directions)
    pub cut_from: Option<usize>,
    /// when send index k happens: fire this token
    pub cancel_at: Option<(usize, CancellationToken)>,
    /// when send index k happens: deliver this datagram (from, to, bytes) after the path latency
    pub inject_at: Vec<(usize, SocketAddr, SocketAddr, Vec<u8>)>,
}

struct Delivery {
    from: SocketAddr,
    to: SocketAddr,
    bytes: Vec<u8>,
}

struct NetInner {
    start: tokio::time::Instant,
    next_k: usize,
    tiebreak: u64,
    plan: BTreeMap<usize, Fate>,
    path: PathCfg,
    triggers: Triggers,
    heap: BinaryHeap<Reverse<(tokio::time::Instant, u64)>>,
    pending: BTreeMap<u64, Delivery>,
    inboxes: BTreeMap<SocketAddr, UnboundedSender<(SocketAddr, Vec<u8>)>>,
    log: Vec<WireEvent>,
    delivered: Vec<(u64, usize)>, // (t_us, k) of deliveries (dups appear twice)
}

pub struct SimNet {
    inner: Mutex<NetInner>,
    notify: Notify,
}

impl SimNet {
    pub fn new(plan: &[(usize, Fate)], path: PathCfg, triggers: Triggers) -> Arc<Self> {
        Arc::new(SimNet {
            inner: Mutex::new(NetInner {
                start: tokio::time::Instant::now(),
                next_k: 0,
                tiebreak: 0,
                plan: plan.iter().copied().collect(),
                path,
                triggers,
                heap: BinaryHeap::new(),
                pending: BTreeMap::new(),
                inboxes: BTreeMap::new(),
                log: vec![],
                delivered: vec![],
            }),
            notify: Notify::new(),
        })
    }

    /// virtual microseconds since the start of the run of a std instant taken from the tokio clock
    pub fn us_of(&self, t: std::time::Instant) -> u64 {
        let start = self.inner.lock().start.into_std();
        t.saturating_duration_since(start).as_micros() as u64
    }

    pub fn now_us(&self) -> u64 {
        let g = self.inner.lock();
        (tokio::time::Instant::now() - g.start).as_micros() as u64
    }

    pub fn transport(self: &Arc<Self>, addr: SocketAddr) -> SimTransport {
        let (tx, rx) = unbounded_channel();
        self.inner.lock().inboxes.insert(addr, tx);
        SimTransport {
            addr,
            net: self.clone(),
            inbox: Arc::new(Mutex::new(rx)),
        }
    }

    /// The network task: delivers queued datagrams at their instants, FIFO among equal instants.
    pub async fn run(self: Arc<Self>) {
        loop {
            let next = { self.inner.lock().heap.peek().map(|r| r.0 .0) };
            match next {
                None => self.notify.notified().await,
                Some(at) => {
                    tokio::select! {
                        biased;
                        _ = tokio::time::sleep_until(at) => {
                            let mut g = self.inner.lock();
                            let now = tokio::time::Instant::now();
                            while let Some(Reverse((t, id))) = g.heap.peek().copied() {
                                if t > now { break; }
                                g.heap.pop();
                                if let Some(d) = g.pending.remove(&id) {
                                    let t_us = (now - g.start).as_micros() as u64;
                                    let k = (id >> 24) as usize;
                                    g.delivered.push((t_us, k));
                                    if let Some(tx) = g.inboxes.get(&d.to) {
                                        let _ = tx.send((d.from, d.bytes));
                                    }
                                }
                            }
                        }
                        _ = self.notify.notified() => {}
                    }
                }
            }
        }
    }

    fn schedule(g: &mut NetInner, k: usize, copy: u64, extra_us: u64, d: Delivery) {
        let at = tokio::time::Instant::now() + Duration::from_micros(g.path.latency_us + extra_us);
        g.tiebreak += 1;
        // id encodes the send index (FIFO among equal instants) and a per-run unique counter
        let _ = copy;
        let id = ((k as u64) << 24) | (g.tiebreak & 0xff_ffff);
        g.heap.push(Reverse((at, id)));
        g.pending.insert(id, d);
    }

    /// A socket hands a datagram to the network. Err(EMSGSIZE) if the local link rejects it.
    fn send(&self, from: SocketAddr, to: SocketAddr, bytes: &[u8]) -> std::io::Result<usize> {
        spin_tick();
        let mut g = self.inner.lock();
        let t_us = (tokio::time::Instant::now() - g.start).as_micros() as u64;
        let parsed = ref_parse_message(bytes);
        let (hdr, payload_len) = match parsed {
            Some((h, p)) => (Some(h), p),
            None => (None, 0),
        };
        if let Some(lim) = g.path.emsgsize_above {
            if bytes.len() > lim {
                g.log.push(WireEvent {
                    k: usize::MAX,
                    t_us,
                    from,
                    to,
                    bytes: bytes.to_vec(),
                    hdr,
                    payload_len,
                    fate: Fate::Drop,
                    path_lost: true,
                    rejected: true,
                    injected: false,
                });
                return Err(std::io::Error::from_raw_os_error(libc::EMSGSIZE));
            }
        }
        let k = g.next_k;
        g.next_k += 1;
        let mut fate = g.plan.get(&k).copied().unwrap_or(Fate::Deliver);
        let mut path_lost = false;
        if g.triggers.cut_from.map(|c| k >= c).unwrap_or(false) {
            path_lost = true;
        }
        if g.path.blackhole_above.map(|l| bytes.len() > l).unwrap_or(false) {
            path_lost = true;
        }
        if !g.inboxes.contains_key(&to) {
            path_lost = true;
        }
        if path_lost {
            fate = Fate::Drop;
        }
        g.log.push(WireEvent {
            k,
            t_us,
            from,
            to,
            bytes: bytes.to_vec(),
            hdr,
            payload_len,
            fate,
            path_lost,
            rejected: false,
            injected: false,
        });
        match fate {
            Fate::Drop => {}
            Fate::Deliver => Self::schedule(&mut g, k, 0, 0, Delivery { from, to, bytes: bytes.to_vec() }),
            Fate::Dup => {
                Self::schedule(&mut g, k, 0, 0, Delivery { from, to, bytes: bytes.to_vec() });
                Self::schedule(&mut g, k, 1, 0, Delivery { from, to, bytes: bytes.to_vec() });
            }
            Fate::Delay(us) => Self::schedule(&mut g, k, 0, us, Delivery { from, to, bytes: bytes.to_vec() }),
        }
        // triggers bound to this send index
        if let Some((ck, tok)) = &g.triggers.cancel_at {
            if *ck == k {
                tok.cancel();
            }
        }
        let inj: Vec<_> = g.triggers.inject_at.iter().filter(|x| x.0 == k).cloned().collect();
        for (i, (_, ifrom, ito, ibytes)) in inj.into_iter().enumerate() {
            let parsed = ref_parse_message(&ibytes);
            g.log.push(WireEvent {
                k: usize::MAX,
                t_us,
                from: ifrom,
                to: ito,
                hdr: parsed.as_ref().map(|p| p.0.clone()),
                payload_len: parsed.as_ref().map(|p| p.1).unwrap_or(0),
                bytes: ibytes.clone(),
                fate: Fate::Deliver,
                path_lost: false,
                rejected: false,
                injected: true,
            });
            Self::schedule(&mut g, k, 2 + i as u64, 0, Delivery { from: ifrom, to: ito, bytes: ibytes });
        }
        drop(g);
        self.notify.notify_one();
        Ok(bytes.len())
    }

    /// Harness-side injection "now" (delivered after the path latency), e.g. hostile datagrams.
    pub fn inject_now(&self, from: SocketAddr, to: SocketAddr, bytes: Vec<u8>) {
        self.inject_with_latency(from, to, bytes, true)
    }

    /// `with_latency` = false: the datagram arrives in this very instant
    pub fn inject_with_latency(&self, from: SocketAddr, to: SocketAddr, bytes: Vec<u8>, with_latency: bool) {
        let mut g = self.inner.lock();
        let t_us = (tokio::time::Instant::now() - g.start).as_micros() as u64;
        let parsed = ref_parse_message(&bytes);
        g.log.push(WireEvent {
            k: usize::MAX,
            t_us,
            from,
            to,
            hdr: parsed.as_ref().map(|p| p.0.clone()),
            payload_len: parsed.as_ref().map(|p| p.1).unwrap_or(0),
            bytes: bytes.clone(),
            fate: Fate::Deliver,
            path_lost: false,
            rejected: false,
            injected: true,
        });
        let k = g.next_k; // ordering only; does not consume an index
        if with_latency {
            Self::schedule(&mut g, k, 0, 0, Delivery { from, to, bytes });
        } else {
            let saved = g.path.latency_us;
            g.path.latency_us = 0;
            Self::schedule(&mut g, k, 0, 0, Delivery { from, to, bytes });
            g.path.latency_us = saved;
        }
        drop(g);
        self.notify.notify_one();
    }

    pub fn add_inject(&self, k: usize, from: SocketAddr, to: SocketAddr, bytes: Vec<u8>) {
        self.inner.lock().triggers.inject_at.push((k, from, to, bytes));
    }

    pub fn set_cut_from_now(&self) {
        let mut g = self.inner.lock();
        let k = g.next_k;
        g.triggers.cut_from = Some(k);
    }

    pub fn sends_so_far(&self) -> usize {
        self.inner.lock().next_k
    }

    pub fn take_log(&self) -> (Vec<WireEvent>, Vec<(u64, usize)>) {
        let mut g = self.inner.lock();
        (std::mem::take(&mut g.log), std::mem::take(&mut g.delivered))
    }

    pub fn snapshot_log(&self) -> Vec<WireEvent> {
        self.inner.lock().log.clone()
    }
}

#[derive(Clone)]
pub struct SimTransport {
    addr: SocketAddr,
    net: Arc<SimNet>,
    inbox: Arc<Mutex<UnboundedReceiver<(SocketAddr, Vec<u8>)>>>,
}

impl Transport for SimTransport {
    async fn recv_from<'a>(&'a self, buf: &'a mut [u8]) -> std::io::Result<(usize, SocketAddr)> {
        let f = poll_fn(|cx| self.inbox.lock().poll_recv(cx));
        match f.await {
            Some((addr, data)) => {
                let n = data.len().min(buf.len());
                buf[..n].copy_from_slice(&data[..n]);
                Ok((n, addr))
            }
            None => std::future::pending().await,
        }
    }

    async fn send_to<'a>(&'a self, buf: &'a [u8], target: SocketAddr) -> std::io::Result<usize> {
        self.net.send(self.addr, target, buf)
    }

    fn poll_send_to(
        &self,
        _cx: &mut std::task::Context<'_>,
        buf: &[u8],
        target: SocketAddr,
    ) -> Poll<std::io::Result<usize>> {
        Poll::Ready(self.net.send(self.addr, target, buf))
    }

    fn bind_addr(&self) -> SocketAddr {
        self.addr
    }
}

impl PollSendToVectored for SimTransport {
    fn poll_send_to_vectored(
        &self,
        _cx: &mut std::task::Context<'_>,
        bufs: &[std::io::IoSlice<'_>],
        target: SocketAddr,
    ) -> Poll<std::io::Result<usize>> {
        let mut buf = Vec::new();
        bufs.iter().for_each(|b| buf.extend_from_slice(b.as_ref()));
        Poll::Ready(self.net.send(self.addr, target, &buf))
    }
}
