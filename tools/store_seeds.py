#!/usr/bin/env python3
"""Copies the confirmed seeded changes from the sub-agents' delivery area into /verif/seeded/<id>/
(patch.diff, demo.diff, notes.md) and writes meta.json from the agent's notes, my confirmation
(confirm.json, written by confirm_seed.py) and the detection matrix (matrix.json, written by matrix.py).
usage: store_seeds.py [<delivery-dir>]"""
import json, os, re, shutil, subprocess, sys
src = sys.argv[1] if len(sys.argv) > 1 else '/tmp/seedout'
matrix = json.load(open('/verif/seeded/matrix.json')) if os.path.exists('/verif/seeded/matrix.json') else {}
head = subprocess.check_output('git -C /repo rev-parse --short HEAD', shell=True, text=True).strip()

def section(notes, *names):
    for n in names:
        m = re.search(r'^#+\s*' + n + r'[^\n]*\n(.*?)(?=^#+\s|\Z)', notes, re.S | re.M | re.I)
        if m:
            return ' '.join(m.group(1).split())[:1200]
    return None

kept, dropped = [], []
for sid in sorted(os.listdir(src)):
    d = os.path.join(src, sid)
    if not (os.path.isdir(d) and os.path.exists(os.path.join(d, 'patch.diff'))):
        continue
    dst = f'/verif/seeded/{sid}'
    cpath = os.path.join(dst, 'confirm.json')
    conf = json.load(open(cpath)) if os.path.exists(cpath) else {}
    if not conf.get('confirmed'):
        dropped.append(sid)
        for f in ('patch.diff', 'demo.diff', 'notes.md', 'meta.json'):
            if os.path.exists(os.path.join(dst, f)):
                os.remove(os.path.join(dst, f))
        continue
    os.makedirs(dst, exist_ok=True)
    for f in ('patch.diff', 'demo.diff', 'notes.md'):
        if os.path.exists(os.path.join(d, f)):
            shutil.copy(os.path.join(d, f), os.path.join(dst, f))
    notes = open(os.path.join(d, 'notes.md')).read() if os.path.exists(os.path.join(d, 'notes.md')) else ''
    title = (notes.splitlines() or [''])[0].lstrip('# ').strip()
    applies = subprocess.run(f'git -C /repo apply --check {dst}/patch.diff', shell=True, capture_output=True).returncode == 0
    det = {}
    for k, v in matrix.get(sid, {}).items():
        det[k] = {'exit': v['exit'], 'signatures': v['signatures']}
    meta = {
        'id': sid,
        'property': sid[:3],
        'title': title,
        'change': section(notes, 'Change', 'The change', 'What changed'),
        'clause_broken': section(notes, 'Clause broken', 'Clause', 'What it breaks', 'Breaks'),
        'needs_to_manifest': section(notes, 'Trigger', 'What it needs', 'Needs'),
        'demonstration': section(notes, 'Demonstration', 'Demo'),
        'produced_by': 'a fresh sub-agent that was given only the text of the property and a scratch worktree of /repo (nothing from /verif)',
        'confirmed_by_me': {
            'how': 'tools/confirm_seed.py in a scratch worktree of /repo HEAD outside /repo and /verif: (1) patch applies and the repository\'s own suite (76 tests, cargo nextest) passes with it; (2) with patch + demo the demonstration test fails while no baseline test fails; (3) with the demo only the demonstration passes',
            'result': {k: conf.get(k) for k in ('patch_applies', 'suite_passes_with_patch', 'demo_fails_with_patch', 'demo_passes_without_patch', 'confirmed')},
            'demo_tests_failing_with_patch': (conf.get('demo_with_patch') or {}).get('demo_tests_failing'),
        },
        'applies_to_repo_head': {'commit': head, 'applies': applies},
        'checks_run_against_it': det,
        'detected_by': sorted({k.split(':')[0] for k, v in det.items() if v['exit'] == 1}),
    }
    json.dump(meta, open(os.path.join(dst, 'meta.json'), 'w'), indent=1)
    kept.append((sid, meta['detected_by'], applies))
for k in kept:
    print('kept', *k)
print('dropped (not confirmed):', dropped)
