//! C15: CUBIC window sanity over all event sequences up to a depth (explicit-state BFS with exact
//! state de-duplication via the `verif_state` hook).

use librqbit_utp::verif::{CongestionController, Cubic, RttEstimator};
use rayon::prelude::*;
use serde_json::{json, Value};
use std::time::{Duration, Instant};

use crate::common::*;

#[derive(Clone, Copy, Debug, PartialEq)]
pub enum Ev {
    Ack(usize),            // bytes; x mss resolved at use: 0, 1, usize::MAX-1 => mss, usize::MAX => 10*mss
    Advance(u64),          // ns
    Rtt(u64),              // ns: replaces the RTT estimate by a fresh estimator with this single sample
    Rto,
    EnterRecovery,
    Recovered(u8, u8),     // cwnd code {0: 0, 1: mss, 2: 100*mss}, ssthresh code {0: 0, 1: 1 MiB}
    SetMssAndReapply(usize),
    SetMssOnly(usize),
    SetRwnd(u8),           // code {0: 0, 1: 1, 2: mss, 3: 3*mss, 4: 1 MiB, 5: usize::MAX}
}

const ACK_MSS: usize = usize::MAX - 1;
const ACK_10MSS: usize = usize::MAX;

pub fn alphabet() -> Vec<Ev> {
    let mut v = vec![Ev::Ack(0), Ev::Ack(1), Ev::Ack(ACK_MSS), Ev::Ack(ACK_10MSS)];
    for ns in [1_000_000u64, 1_000_000_000, 3_600_000_000_000] {
        v.push(Ev::Advance(ns));
    }
    for ns in [0u64, 1_000, 50_000_000, 3_600_000_000_000] {
        v.push(Ev::Rtt(ns));
    }
    v.push(Ev::Rto);
    v.push(Ev::EnterRecovery);
    for c in 0..3u8 {
        for s in 0..2u8 {
            v.push(Ev::Recovered(c, s));
        }
    }
    for m in [1usize, 528, 1452] {
        v.push(Ev::SetMssAndReapply(m));
    }
    v.push(Ev::SetMssOnly(1452));
    v.push(Ev::SetMssOnly(528));
    for w in 0..6u8 {
        v.push(Ev::SetRwnd(w));
    }
    v
}

#[derive(Clone, Copy)]
pub struct St {
    c: Cubic,
    rtte: RttEstimator,
    t0: Instant,
    elapsed: u64, // ns since t0
    /// peer window in bytes most recently applied, and whether it was applied after the last MSS change
    rwnd_bytes: Option<usize>,
    rwnd_current: bool,
    /// the same controller behind the tracing wrapper (`CongestionConfig { tracing: true }`): it must
    /// forward every call - compared after every event
    t: librqbit_utp::verif::TracingController<Cubic>,
}

fn rwnd_val(code: u8, mss: usize) -> usize {
    match code {
        0 => 0,
        1 => 1,
        2 => mss,
        3 => 3 * mss,
        4 => 1 << 20,
        _ => usize::MAX,
    }
}

impl St {
    pub fn new(t0: Instant) -> Self {
        St { c: Cubic::new(t0, 528), rtte: RttEstimator::default(), t0, elapsed: 0, rwnd_bytes: None, rwnd_current: false, t: librqbit_utp::verif::TracingController::new(Cubic::new(t0, 528)) }
    }
    fn now(&self) -> Instant {
        self.t0 + Duration::from_nanos(self.elapsed)
    }
    fn key(&self) -> [u64; 14] {
        let a = self.c.verif_state(self.now());
        let r = self.rtte.verif_state();
        [a[0], a[1], a[2], a[3], a[4], a[5], a[6], a[7], r[0], r[2], self.rwnd_bytes.map(|x| x as u64).unwrap_or(u64::MAX - 7), self.rwnd_current as u64, 0, 0]
    }
}

fn tol(x: f64) -> f64 {
    (x.abs() * 1e-9).max(2.0)
}

/// Applies one event and checks every invariant of C15. Err = (signature, message).
pub fn step(s: &mut St, ev: Ev) -> Result<u8, (String, String)> {
    let mss0 = s.c.smss();
    let w0 = s.c.window();
    let st0 = s.c.verif_state(s.now());
    let cwnd0 = f64::from_bits(st0[0]);
    let ss0 = f64::from_bits(st0[1]);
    let valid0 = s.rwnd_current;
    let res = std::panic::catch_unwind(std::panic::AssertUnwindSafe(|| {
        match ev {
            Ev::Ack(code) => {
                let len = match code {
                    ACK_MSS => mss0,
                    ACK_10MSS => 10 * mss0,
                    x => x,
                };
                s.c.on_ack(s.now(), len, &s.rtte);
                s.t.on_ack(s.now(), len, &s.rtte);
                Some(len)
            }
            Ev::Advance(ns) => {
                s.elapsed += ns;
                None
            }
            Ev::Rtt(ns) => {
                let mut r = RttEstimator::default();
                r.sample(Duration::from_nanos(ns));
                s.rtte = r;
                None
            }
            Ev::Rto => {
                s.c.on_retransmission_timeout(s.now());
                s.t.on_retransmission_timeout(s.now());
                None
            }
            Ev::EnterRecovery => {
                s.c.on_enter_recovery(s.now());
                s.t.on_enter_recovery(s.now());
                None
            }
            Ev::Recovered(c, ss) => {
                let cw = match c {
                    0 => 0,
                    1 => mss0,
                    _ => 100 * mss0,
                };
                let sst = if ss == 0 { 0 } else { 1 << 20 };
                s.c.on_recovered(cw, sst);
                s.t.on_recovered(cw, sst);
                None
            }
            Ev::SetMssAndReapply(m) => {
                s.c.set_mss(m);
                s.t.set_mss(m);
                if let Some(w) = s.rwnd_bytes {
                    s.c.set_remote_window(w);
                    s.t.set_remote_window(w);
                    s.rwnd_current = true;
                }
                None
            }
            Ev::SetMssOnly(m) => {
                if m != mss0 {
                    s.rwnd_current = false;
                }
                s.c.set_mss(m);
                s.t.set_mss(m);
                None
            }
            Ev::SetRwnd(code) => {
                let w = rwnd_val(code, mss0);
                s.c.set_remote_window(w);
                s.t.set_remote_window(w);
                s.rwnd_bytes = Some(w);
                s.rwnd_current = true;
                None
            }
        }
    }));
    let acked = match res {
        Ok(a) => a,
        Err(_) => return Err(("cubic/panic".into(), format!("{ev:?} panicked"))),
    };
    let mss1 = s.c.smss();
    let w1 = s.c.window();
    let st1 = s.c.verif_state(s.now());
    let cwnd1 = f64::from_bits(st1[0]);
    let ss1 = f64::from_bits(st1[1]);
    // the tracing wrapper is transparent
    if s.t.window() != w1 || s.t.sshthresh() != s.c.sshthresh() || s.t.smss() != mss1 {
        return Err((
            "cubic/tracing-wrapper-differs".into(),
            format!("after {ev:?} the controller behind the tracing wrapper reports window {} ssthresh {} mss {}, the plain one {} {} {}", s.t.window(), s.t.sshthresh(), s.t.smss(), w1, s.c.sshthresh(), mss1),
        ));
    }
    // finite internal window
    if !cwnd1.is_finite() {
        return Err(("cubic/non-finite".into(), format!("internal congestion window became {cwnd1} after {ev:?}")));
    }
    // bounds: min(2*mss, rwnd) <= window <= rwnd, once the peer window is current for this MSS
    if s.rwnd_current {
        let rw = s.rwnd_bytes.unwrap() as f64;
        let lo = (2.0 * mss1 as f64).min(rw);
        let w = w1 as f64;
        if w > rw + tol(rw) {
            return Err(("cubic/above-peer-window".into(), format!("window()={w1} exceeds peer window {rw} after {ev:?}")));
        }
        if w + tol(lo) < lo {
            return Err(("cubic/below-floor".into(), format!("window()={w1} below min(2*mss={}, peer window {rw}) after {ev:?}", 2 * mss1)));
        }
    }
    match ev {
        Ev::Rto | Ev::EnterRecovery => {
            if w1 as f64 > w0 as f64 + tol(w0 as f64) {
                return Err(("cubic/loss-increased-window".into(), format!("{ev:?} raised window() {w0} -> {w1}")));
            }
            let want = (0.7 * cwnd0).max(2.0);
            if (ss1 - want).abs() > 1e-9 * want.abs().max(1.0) {
                return Err((
                    "cubic/ssthresh-after-loss".into(),
                    format!("{ev:?}: ssthresh {ss1} segments, expected max(0.7*{cwnd0}, 2) = {want}"),
                ));
            }
            let ss_bytes = s.c.sshthresh() as f64;
            let want_b = want * mss1 as f64;
            if want_b < 1e18 && (ss_bytes - want_b).abs() > tol(want_b) {
                return Err(("cubic/ssthresh-bytes".into(), format!("sshthresh()={ss_bytes} expected {want_b}")));
            }
        }
        Ev::Ack(_) => {
            let len = acked.unwrap_or(0);
            if cwnd0 < ss0 {
                // slow start: growth bounded by the bytes acknowledged
                if w1 as f64 > w0 as f64 + len as f64 + 1.0 {
                    return Err((
                        "cubic/slow-start-growth".into(),
                        format!("slow start: one ACK of {len} bytes raised window() {w0} -> {w1}"),
                    ));
                }
            }
            if len == 0 && w1 != w0 {
                return Err(("cubic/zero-ack-changed-window".into(), format!("{w0} -> {w1}")));
            }
        }
        Ev::SetMssAndReapply(m) => {
            // same bytes above the two-segment floor, once the peer window is re-applied
            if valid0 && s.rwnd_current {
                let floor = 2 * mss0.max(m);
                if w0 > floor && (w1 as f64 - w0 as f64).abs() > tol(w0 as f64).max(2.0) {
                    // w0 above both floors: must be preserved
                    return Err((
                        "cubic/mss-change-resets-window".into(),
                        format!("set_mss({mss0}->{m}) + same peer window: window() {w0} -> {w1} bytes"),
                    ));
                }
            }
        }
        _ => {}
    }
    let _ = (mss1, ss1);
    // outcome class for vacuity statistics
    Ok(if cwnd1 < ss1 { 0 } else { 1 } + if s.rwnd_current { 2 } else { 0 })
}

pub fn run(ctx: &Ctx) -> Outcome {
    let alpha = alphabet();
    let depth = ctx.tier.pick(7usize, 8usize);
    let t0 = Instant::now();
    let mut out = Outcome::default();
    let mut part = Part::mc("cubic-event-sequences");
    let mut seen: std::collections::HashSet<[u64; 14]> = Default::default();
    let init = St::new(t0);
    seen.insert(init.key());
    let mut frontier: Vec<(St, Vec<u8>)> = vec![(init, vec![])];
    let mut outcomes = std::collections::BTreeSet::new();
    let mut completed = 0;
    let state_cap: usize = ctx.tier.pick(6_000_000, 60_000_000);
    'levels: for d in 0..depth {
        let results: Vec<Vec<Result<(St, Vec<u8>, u8), (String, String, Vec<u8>)>>> = frontier
            .par_iter()
            .map(|(s, path)| {
                alpha
                    .iter()
                    .enumerate()
                    .map(|(i, ev)| {
                        let mut s2 = *s;
                        let mut p2 = path.clone();
                        p2.push(i as u8);
                        match step(&mut s2, *ev) {
                            Ok(o) => Ok((s2, p2, o)),
                            Err((sig, msg)) => Err((sig, msg, p2)),
                        }
                    })
                    .collect()
            })
            .collect();
        let mut next = vec![];
        for r in results.into_iter().flatten() {
            part.transitions += 1;
            match r {
                Ok((s2, p2, o)) => {
                    outcomes.insert(o);
                    if seen.insert(s2.key()) {
                        next.push((s2, p2));
                    }
                }
                Err((sig, msg, p)) => {
                    if !out.violations.iter().any(|v| v.signature == sig) {
                        out.violations.push(Violation {
                            property: "C15".into(),
                            monitor: "cubic-invariants".into(),
                            signature: sig,
                            detail: format!("{msg}; events={:?}", p.iter().map(|i| format!("{:?}", alpha[*i as usize])).collect::<Vec<_>>()),
                            replay: json!({"engine":"exhaust","check":"cubic","events": p}),
                        });
                    }
                }
            }
        }
        completed = d + 1;
        frontier = next;
        if seen.len() > state_cap || ctx.budget_left() < 5.0 {
            if d + 1 < depth {
                part.caps_hit.push(format!("stopped after depth {} (states {}, budget left {:.0}s)", d + 1, seen.len(), ctx.budget_left()));
                part.exhaustive = false;
            }
            break 'levels;
        }
        if frontier.is_empty() {
            break;
        }
    }
    part.states = seen.len() as u64;
    part.distinct_outcomes = outcomes.len() as u64;
    part.bound = format!("all sequences of <= {completed} events over an alphabet of {} (ACK sizes, clock advances, RTT values incl. 0 and 1 h, RTO, recovery entry/exit, MSS changes, peer windows incl. 0 and usize::MAX); exact-state de-duplication", alpha.len());
    part.samples.push(json!(["SetRwnd(1 MiB)", "Ack(10*mss)", "EnterRecovery", "Advance(1 s)", "Ack(mss)"]));
    part.samples.push(json!(["SetRwnd(3*mss)", "Rto", "SetMssAndReapply(1452)", "Ack(1)"]));
    if outcomes.len() < 3 {
        machinery_error("cubic exploration vacuous: never left slow start or never had a current peer window");
    }
    out.parts.push(part);
    out.rule = "C15: BFS over event sequences on the real Cubic; distinct = distinct exact controller states (all floats bit-exact, congestion-event age, RTT estimate, peer-window bookkeeping)".into();
    out.assumptions.push("window bounds are demanded only while the peer window has been (re)applied after the last MSS change, as the property's last sentence words it".into());
    out.assumptions.push("'0.7 of the previous window' is read as 0.7 x the controller's internal congestion window before the event (hook), at least two segments".into());
    out
}

pub fn replay(r: &Value) -> i32 {
    let alpha = alphabet();
    let mut s = St::new(Instant::now());
    for i in r["events"].as_array().cloned().unwrap_or_default() {
        let ev = alpha[i.as_u64().unwrap_or(0) as usize];
        let res = step(&mut s, ev);
        println!("{ev:?} -> window={} ssthresh={} {:?} {:?}", s.c.window(), s.c.sshthresh(), s.c, res);
        if let Err((sig, msg)) = res {
            println!("REPLAY-VIOLATION {sig}: {msg}");
            return 1;
        }
    }
    println!("REPLAY-OK");
    0
}
