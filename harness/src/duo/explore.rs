//! Iterative deviation bounding over fault plans: explore everything with 0 deviations, then 1,
//! then 2 ...; a plan's children add one deviation at a send index after its last one.

use rayon::prelude::*;
use serde_json::{json, Value};
use std::collections::{BTreeMap, HashSet};

use super::oracles::Finding;
use super::scenario::*;
use super::sim::Fate;
use crate::common::*;

pub type Plan = Vec<(usize, Fate)>;

pub struct ExploreCfg<'a> {
    pub max_dev: usize,
    /// first send index that may deviate
    pub min_k: usize,
    pub fates: Vec<Fate>,
    /// which sends of the parent run may deviate (by index into the parent's wire log)
    pub eligible: &'a (dyn Fn(&RunLog, &WireEventLite) -> bool + Sync),
    pub judge: &'a (dyn Fn(&Scenario, &Plan, &RunLog) -> Vec<Finding> + Sync),
    pub max_runs: u64,
}

#[derive(Default)]
pub struct ExploreResult {
    pub runs: u64,
    pub distinct_traces: u64,
    pub per_level: Vec<u64>,
    pub completed_bound: usize,
    pub capped: Option<String>,
    pub findings: Vec<(Finding, Plan)>,
    pub outcome_classes: BTreeMap<String, u64>,
    pub max_sends: usize,
    pub datagrams_validated: u64,
}

pub fn classify(l: &RunLog) -> String {
    if l.panicked.is_some() {
        return "panic".into();
    }
    if l.watchdog_fired {
        return "watchdog".into();
    }
    let err = l.app.iter().any(|e| matches!(e.ev, AppEv::WriteErr(_) | AppEv::FlushErr(_) | AppEv::ShutdownErr(_) | AppEv::ReadErr(_) | AppEv::ConnectErr(_) | AppEv::AcceptErr(_)));
    if err {
        "completed-with-error".into()
    } else {
        "completed".into()
    }
}

pub fn fates_basic() -> Vec<Fate> {
    vec![Fate::Drop, Fate::Dup, Fate::Delay(15_000), Fate::Delay(300_000)]
}

/// Runs the base plan twice and demands identical traces (nondeterminism is a machinery error).
pub fn determinism_check(scn: &Scenario, abort: &Abort) -> RunLog {
    let a = run(scn, &[], abort);
    let b = run(scn, &[], abort);
    if a.trace_hash != b.trace_hash || a.n_sends != b.n_sends {
        machinery_error(&format!("scenario {} is not deterministic: {} vs {} sends, hashes {:x} vs {:x}", scn.name, a.n_sends, b.n_sends, a.trace_hash, b.trace_hash));
    }
    a
}

/// What is kept of one execution: full run logs of a whole level (millions at bound 3-4) do not fit in memory.
struct Slim {
    plan: Plan,
    findings: Vec<Finding>,
    class: String,
    trace_hash: u64,
    n_sends: usize,
    datagrams: u64,
    /// send indices at which a further deviation may be placed
    child_ks: Vec<usize>,
}

fn slim(scn: &Scenario, cfg: &ExploreCfg, plan: Plan, l: &RunLog) -> Slim {
    let start = plan.last().map(|x| x.0 + 1).unwrap_or(0).max(cfg.min_k);
    let child_ks = l.wire.iter().filter(|w| w.k != usize::MAX && w.k >= start && (cfg.eligible)(l, w)).map(|w| w.k).collect();
    Slim {
        findings: (cfg.judge)(scn, &plan, l),
        class: classify(l),
        trace_hash: l.trace_hash,
        n_sends: l.n_sends,
        datagrams: l.wire.iter().filter(|w| !w.injected && w.parse_ok).count() as u64,
        child_ks,
        plan,
    }
}

pub fn explore(ctx: &Ctx, scn: &Scenario, cfg: &ExploreCfg) -> ExploreResult {
    let mut res = ExploreResult::default();
    let mut seen: HashSet<u64> = HashSet::new();
    let base = determinism_check(scn, &Abort::None);
    let mut level: Vec<Slim> = vec![slim(scn, cfg, vec![], &base)];
    drop(base);
    for d in 0..=cfg.max_dev {
        // account for this level (judged when it was executed)
        for s in level.iter_mut() {
            res.runs += 1;
            res.datagrams_validated += s.datagrams;
            if seen.insert(s.trace_hash) {
                res.distinct_traces += 1;
            }
            res.max_sends = res.max_sends.max(s.n_sends);
            *res.outcome_classes.entry(std::mem::take(&mut s.class)).or_insert(0) += 1;
            for f in s.findings.drain(..) {
                res.findings.push((f, s.plan.clone()));
            }
        }
        res.per_level.push(level.len() as u64);
        res.completed_bound = d;
        if d == cfg.max_dev {
            break;
        }
        // children
        let n_children: u64 = level.iter().map(|s| (s.child_ks.len() * cfg.fates.len()) as u64).sum();
        if res.runs + n_children > cfg.max_runs || ctx.budget_left() < 3.0 {
            res.capped = Some(format!(
                "level {} would need {} more runs (cap {}, budget left {:.0}s): stopped after completing bound {}",
                d + 1,
                n_children,
                cfg.max_runs,
                ctx.budget_left(),
                d
            ));
            break;
        }
        let mut next_plans: Vec<Plan> = Vec::with_capacity(n_children as usize);
        for s in &level {
            for k in &s.child_ks {
                for f in &cfg.fates {
                    let mut c = s.plan.clone();
                    c.push((*k, *f));
                    next_plans.push(c);
                }
            }
        }
        let t_level = std::time::Instant::now();
        let budget = ctx.budget_left();
        let runs: Vec<Option<Slim>> = next_plans
            .into_par_iter()
            .map(|p| {
                if t_level.elapsed().as_secs_f64() > budget - 2.0 {
                    return None;
                }
                let l = run(scn, &p, &Abort::None);
                Some(slim(scn, cfg, p, &l))
            })
            .collect();
        let total = runs.len();
        level = runs.into_iter().flatten().collect();
        if level.len() < total {
            res.capped = Some(format!("time budget hit inside level {}: {} of {} plans executed (bound {} fully covered)", d + 1, level.len(), total, d));
            // account for what was executed, but do not claim the bound
            for s in level.iter_mut() {
                res.runs += 1;
                if seen.insert(s.trace_hash) {
                    res.distinct_traces += 1;
                }
                for f in s.findings.drain(..) {
                    res.findings.push((f, s.plan.clone()));
                }
            }
            break;
        }
    }
    res
}

pub fn replay_json(scn: &Scenario, plan: &Plan, abort: &Abort) -> Value {
    json!({"engine": "duo", "scenario": scn, "plan": plan, "abort": abort})
}

/// Shortest finding per signature -> Violation (after re-executing it twice for stability).
pub fn findings_to_violations(scn: &Scenario, findings: &[(Finding, Plan)], judge: &(dyn Fn(&Scenario, &Plan, &RunLog) -> Vec<Finding> + Sync)) -> Vec<Violation> {
    let mut best: BTreeMap<String, &(Finding, Plan)> = BTreeMap::new();
    for fp in findings {
        let e = best.entry(format!("{}|{}", fp.0.property, fp.0.signature)).or_insert(fp);
        if fp.1.len() < e.1.len() {
            *e = fp;
        }
    }
    let mut out = vec![];
    for (_, (f, plan)) in best {
        // a violation must reproduce identically, twice
        for _ in 0..2 {
            let l = run(scn, plan, &Abort::None);
            let again = judge(scn, plan, &l);
            if !again.iter().any(|g| g.signature == f.signature && g.property == f.property) {
                machinery_error(&format!("finding {} on scenario {} plan {:?} did not reproduce on re-execution", f.signature, scn.name, plan));
            }
        }
        out.push(Violation {
            property: f.property.to_string(),
            monitor: f.monitor.to_string(),
            signature: f.signature.clone(),
            detail: format!("[scenario {} plan {:?}] {}", scn.name, plan, f.detail),
            replay: replay_json(scn, plan, &Abort::None),
        });
    }
    out
}
