//! C05 sender obeys peer window and slow start (solo).
use super::solo_drivers::*;
use crate::common::*;

pub fn run(ctx: &Ctx) -> Outcome {
    let mut out = Outcome::default();
    let d = ctx.tier.pick(7, 9);
    run_and_report(ctx, &tx_window(ctx.tier, true, 10, d), &mut out);
    run_and_report(ctx, &tx_window(ctx.tier, false, 10, d), &mut out);
    run_and_report(ctx, &tx_slowstart(ctx.tier, ctx.tier.pick(8, 9)), &mut out);
    run_and_report(ctx, &tx_window_mtu(ctx.tier, ctx.tier.pick(7, 8)), &mut out);
    run_and_report(ctx, &tx_slowstart_mtu(ctx.tier, ctx.tier.pick(7, 8)), &mut out);
    run_and_report(ctx, &rtx(ctx.tier, 5, true, ctx.tier.pick(7, 8)), &mut out);
    run_and_report(ctx, &rtx_after_recovery_rto(ctx.tier, ctx.tier.pick(7, 8)), &mut out);
    // the same sender with the congestion controller behind its tracing wrapper, over IPv6, and at the wrap
    {
        let mut t = tx_slowstart(ctx.tier, ctx.tier.pick(7, 8));
        t.name = "tx-slowstart-cc-tracing-v6".into();
        t.cfg.cc_tracing = true;
        t.cfg.ipv6 = true;
        t.cfg.link_mtu += 20; // IPv6 header is 20 bytes longer: same payload size
        run_and_report(ctx, &t, &mut out);
        let mut w = tx_window(ctx.tier, true, 10, ctx.tier.pick(7, 8));
        w.name = "tx-window-wrap".into();
        w.cfg.our_isn = 65_533;
        w.cfg.cc_tracing = true;
        run_and_report(ctx, &w, &mut out);
    }
    if ctx.tier == Tier::Thorough {
        run_and_report(ctx, &tx_window(ctx.tier, true, 16, d), &mut out);
    }
    out.rule = "C05: explicit-state BFS over ACK/window histories x writes; the bound is evaluated at every first transmission of a sequence number outside loss episodes, from the wire".into();
    out
}
