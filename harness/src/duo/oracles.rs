//! Oracles over a completed run. Each returns findings tagged with the property they decide.

use super::scenario::*;
use super::sim::Fate;

#[derive(Clone, Debug)]
pub struct Finding {
    pub property: &'static str,
    pub monitor: &'static str,
    pub signature: String,
    pub detail: String,
}

fn f(property: &'static str, monitor: &'static str, signature: impl Into<String>, detail: impl Into<String>) -> Finding {
    Finding { property, monitor, signature: signature.into(), detail: detail.into() }
}

pub fn side_name(s: Side) -> &'static str {
    match s {
        Side::A => "A(connector)",
        Side::B => "B(acceptor)",
    }
}

fn idx(s: Side) -> usize {
    match s {
        Side::A => 0,
        Side::B => 1,
    }
}
fn other(s: Side) -> Side {
    match s {
        Side::A => Side::B,
        Side::B => Side::A,
    }
}

/// C10 (any engine): no panic, no internal 'bug:' error surfaced to stream users.
pub fn no_panic_no_bug(l: &RunLog) -> Vec<Finding> {
    let mut v = vec![];
    if l.livelock {
        // a task that spins at one instant starves everything behind the clock: nothing is ever
        // retransmitted, delivered or timed out again (C02, C03), and it is a hang (C10)
        for p in ["C02", "C03", "C10"] {
            v.push(f(p, "livelock", "wake/livelock-at-one-instant", format!("a library task kept the runtime busy for {} polls at one virtual instant: the clock can never advance", crate::duo::sim::SPIN_LIMIT)));
        }
    }
    if let Some(p) = &l.panicked {
        v.push(f("C10", "panic", "panic/in-run", format!("panic during the run: {p}")));
    }
    for e in &l.app {
        let msg = match &e.ev {
            AppEv::WriteErr(m) | AppEv::FlushErr(m) | AppEv::ShutdownErr(m) | AppEv::ReadErr(m) | AppEv::ConnectErr(m) | AppEv::AcceptErr(m) => m,
            _ => continue,
        };
        if msg.to_lowercase().starts_with("bug") {
            v.push(f("C10", "bug-error", format!("bug-error/{}", msg.split(':').take(2).collect::<Vec<_>>().join(":")), format!("{} saw internal error: {msg}", side_name(e.side))));
        }
    }
    v
}

/// C11 (c): every datagram a socket emitted is accepted by the reference parser.
pub fn emitted_wellformed(l: &RunLog) -> Vec<Finding> {
    let mut v = vec![];
    for w in &l.wire {
        if !w.injected && !w.parse_ok {
            v.push(f("C11", "emitted-wellformed", "emitted/unparseable", format!("send #{} at {} us is rejected by the reference parser", w.k, w.t_us)));
            break;
        }
    }
    v
}

/// C11 (c): the connection id owed to a direction. A SYN announces the id `c` its sender receives on;
/// everything else the initiator sends carries `c + 1`, everything the responder sends back
/// (SYN-ACK, data, FIN, and the RESET that refuses the SYN) carries `c`. `wire` is in send order;
/// injected datagrams only contribute their SYNs. Returns the first offending datagram.
pub fn first_wrong_conn_id<K: Eq + std::hash::Hash + Copy + std::fmt::Debug>(wire: impl Iterator<Item = (K, K, u8, u16, bool, bool)>) -> Option<String> {
    // (initiator, responder) -> ids announced by SYNs
    let mut syns: std::collections::HashMap<(K, K), Vec<u16>> = Default::default();
    for (i, (from, to, ptype, conn_id, injected, parse_ok)) in wire.enumerate() {
        if !parse_ok {
            continue;
        }
        if ptype == 4 {
            syns.entry((from, to)).or_default().push(conn_id);
            continue;
        }
        if injected {
            continue;
        }
        let as_initiator = syns.get(&(from, to)).map(|v| v.iter().any(|c| c.wrapping_add(1) == conn_id)).unwrap_or(false);
        let as_responder = syns.get(&(to, from)).map(|v| v.contains(&conn_id)).unwrap_or(false);
        if !as_initiator && !as_responder {
            return Some(format!(
                "datagram #{i} ({}) from {from:?} to {to:?} carries connection id {conn_id}; ids announced by SYNs {from:?}->{to:?}: {:?} (would owe +1), {to:?}->{from:?}: {:?} (would owe the same id)",
                super::debug::type_name(ptype),
                syns.get(&(from, to)).cloned().unwrap_or_default(),
                syns.get(&(to, from)).cloned().unwrap_or_default()
            ));
        }
    }
    None
}

pub fn emitted_ids(l: &RunLog) -> Vec<Finding> {
    match first_wrong_conn_id(l.wire.iter().map(|w| (w.from_a, !w.from_a, w.ptype, w.conn_id, w.injected, w.parse_ok))) {
        Some(m) => vec![f("C11", "emitted-wellformed", "emitted/wrong-connection-id", m)],
        None => vec![],
    }
}

/// C01: at every poll_read return the bytes read so far are a prefix of the bytes the peer's
/// poll_write accepted so far.
pub fn integrity(l: &RunLog) -> Vec<Finding> {
    let mut v = vec![];
    let mut accepted = [0u64; 2];
    let mut read = [0u64; 2];
    for e in &l.app {
        match &e.ev {
            AppEv::WriteAccepted { n, .. } => accepted[idx(e.side)] += *n as u64,
            AppEv::ReadGot { off, n, ok, first_bad } => {
                read[idx(e.side)] += *n as u64;
                if !*ok {
                    // root-cause classification: the writer re-cut a sequence number (an expired MTU probe)
                    // whose original transmission had in fact been delivered
                    let writer_is_a = e.side == Side::B;
                    // (any earlier transmission of that sequence number - the probe or its retransmission - that
                    // was delivered in a different size)
                    let mut earlier: std::collections::BTreeMap<u16, Vec<(usize, bool)>> = Default::default();
                    let mut recut_of_delivered = false;
                    for w in l.wire.iter().filter(|w| w.from_a == writer_is_a && w.ptype == 0 && !w.injected && !w.rejected) {
                        let delivered = l.delivered.iter().any(|d| d.1 == w.k);
                        let e = earlier.entry(w.seq).or_default();
                        if e.iter().any(|(len0, del0)| *len0 != w.payload.len() && *del0) {
                            recut_of_delivered = true;
                        }
                        e.push((w.payload.len(), delivered));
                    }
                    // ... or the re-cut version never reached the wire: an oversized first transmission was
                    // delivered, but the first ACK covering it reached the writer a full minimum RTO (200 ms) later
                    if !recut_of_delivered {
                        // (size of the latest transmission of each sequence number so far: a dropped probe is re-cut)
                        let mut seen: std::collections::BTreeMap<u16, usize> = Default::default();
                        for w in l.wire.iter().filter(|w| w.from_a == writer_is_a && w.ptype == 0 && !w.injected && !w.rejected) {
                            if seen.contains_key(&w.seq) {
                                seen.insert(w.seq, w.payload.len());
                                continue;
                            }
                            // probe-like: larger than every payload size the peer had acknowledged (by an ACK
                            // delivered to the writer) when it was sent
                            let acks_before: Vec<u16> = l.wire.iter().filter(|a| a.from_a != writer_is_a && !a.injected && a.parse_ok).filter(|a| l.delivered.iter().any(|d| d.1 == a.k && d.0 <= w.t_us)).map(|a| a.ack).collect();
                            let proven = seen.iter().filter(|(s, _)| acks_before.iter().any(|a| (a.wrapping_sub(**s) as i16) >= 0)).map(|(_, len)| *len).max().unwrap_or(0);
                            let probe_like = proven > 0 && w.payload.len() > proven;
                            seen.insert(w.seq, w.payload.len());
                            if probe_like && l.delivered.iter().any(|d| d.1 == w.k) {
                                let t_ack = l
                                    .wire
                                    .iter()
                                    .filter(|a| a.from_a != writer_is_a && !a.injected && a.parse_ok && (a.ack.wrapping_sub(w.seq) as i16) >= 0)
                                    .filter_map(|a| l.delivered.iter().filter(|d| d.1 == a.k).map(|d| d.0).min())
                                    .min();
                                if t_ack.map(|t| t >= w.t_us + 200_000).unwrap_or(true) {
                                    recut_of_delivered = true;
                                }
                            }
                        }
                    }
                    v.push(f(
                        "C01",
                        "integrity",
                        if recut_of_delivered { "probe/acked-after-expiry-desynchronises-stream" } else { "integrity/wrong-bytes" },
                        format!(
                            "{} read {} bytes at stream offset {}: first wrong byte at offset {} (t={} us)",
                            side_name(e.side), n, off, first_bad.unwrap_or(0), e.t_us
                        ),
                    ));
                    return v;
                }
                if read[idx(e.side)] > accepted[idx(other(e.side))] {
                    v.push(f(
                        "C01",
                        "integrity",
                        "integrity/read-more-than-written",
                        format!("{} has read {} bytes but the peer's write accepted only {}", side_name(e.side), read[idx(e.side)], accepted[idx(other(e.side))]),
                    ));
                    return v;
                }
            }
            _ => {}
        }
    }
    v
}

/// Sum of the bytes the script wants to write.
pub fn script_bytes(s: &AppScript) -> u64 {
    s.writer.iter().map(|o| if let WOp::Write(n) = o { *n as u64 } else { 0 }).sum()
}

pub fn reads_to_eof(s: &AppScript) -> bool {
    matches!(s.reader.last(), Some(ROp::ReadToEof(_))) || s.reader.iter().any(|r| matches!(r, ROp::ReadToEof(_)))
}

pub fn closes(s: &AppScript) -> bool {
    // the writer half is dropped at script end unless held
    !s.writer.iter().any(|o| matches!(o, WOp::Hold))
}

/// C02 clause 1 (fair-lossy progress), exactly what the statement promises: every scripted write is
/// accepted, every accepted byte is read by a peer that keeps reading, flush and shutdown return
/// (successfully: all bytes get acknowledged on a fair network). Whether the *end of stream* reaches
/// the peer and whether reads end in EOF or in an error after everything was delivered is C17/C03's
/// business, not this oracle's.
pub fn progress(scn: &Scenario, l: &RunLog) -> Vec<Finding> {
    let mut v = vec![];
    // "On an established connection": the acceptor is established once the connector's first packet
    // has reached it. A plan that keeps every packet of the connector away until the acceptor's SYN-ACK
    // retries are used up (max_retransmissions x 200 ms) never produced one.
    if let Some(t_synack) = l.wire.iter().find(|w| !w.from_a && w.ptype == 2 && !w.injected).map(|w| w.t_us) {
        let retries_us = scn.b.max_retx as u64 * 200_000;
        let first_from_connector = l.wire.iter().filter(|w| w.from_a && w.ptype != 4 && !w.injected).filter_map(|w| delivery_time(l, w.k)).min();
        if first_from_connector.map(|t| t > t_synack + retries_us).unwrap_or(true) {
            return v;
        }
    }
    let want = [script_bytes(&scn.app_a), script_bytes(&scn.app_b)];
    let horizon_us = scn.horizon_s * 1_000_000;
    // state at the horizon
    let mut accepted = [0u64; 2];
    let mut read = [0u64; 2];
    let mut pending_call: [Option<&'static str>; 2] = [None, None];
    for e in l.app.iter().filter(|e| e.t_us <= horizon_us) {
        let s = idx(e.side);
        match &e.ev {
            AppEv::WriteAccepted { n, .. } => {
                accepted[s] += *n as u64;
                pending_call[s] = None;
            }
            AppEv::WritePending => pending_call[s] = Some("write"),
            AppEv::FlushCalled => pending_call[s] = Some("flush"),
            AppEv::ShutdownCalled => pending_call[s] = Some("shutdown"),
            AppEv::FlushOk | AppEv::ShutdownOk => pending_call[s] = None,
            AppEv::ReadGot { n, .. } => read[s] += *n as u64,
            AppEv::WriteErr(m) | AppEv::FlushErr(m) | AppEv::ShutdownErr(m) => {
                let what = match &e.ev {
                    AppEv::WriteErr(_) => "write",
                    AppEv::FlushErr(_) => "flush",
                    _ => "shutdown",
                };
                v.push(f(
                    "C02",
                    "progress",
                    format!("progress/{what}-failed"),
                    format!("{} {what} failed under a fair-lossy plan at t={} us: {m}", side_name(e.side), e.t_us),
                ));
                return v;
            }
            AppEv::ConnectErr(m) | AppEv::AcceptErr(m) => {
                v.push(f("C02", "progress", "progress/handshake-failed", format!("{}: {m}", side_name(e.side))));
                return v;
            }
            _ => {}
        }
    }
    let connected = l.app.iter().any(|e| e.ev == AppEv::Connected && e.t_us <= horizon_us);
    if !connected {
        v.push(f("C02", "progress", "progress/connect-never-completed", "connect did not complete before the horizon".to_string()));
        return v;
    }
    for side in [Side::A, Side::B] {
        let w = idx(side);
        let r = idx(other(side));
        let peer_script = if side == Side::A { &scn.app_b } else { &scn.app_a };
        let mut problems = vec![];
        if let Some(c) = pending_call[w] {
            problems.push(format!("{}'s {c} still pending", side_name(side)));
        }
        if accepted[w] < want[w] && pending_call[w].is_none() {
            problems.push(format!("{} wrote only {} of {} bytes", side_name(side), accepted[w], want[w]));
        }
        if reads_to_eof(peer_script) && read[r] < accepted[w] {
            problems.push(format!("{} has read {} of the {} bytes {} wrote", side_name(other(side)), read[r], accepted[w], side_name(side)));
        }
        if !problems.is_empty() {
            let sig = if zero_window_update_lost(scn, l) { "progress/zero-window-update-lost" } else { "progress/stalled-until-horizon" };
            v.push(f(
                "C02",
                "progress",
                sig,
                format!("fair-lossy plan, after {} s of virtual time: {}", scn.horizon_s, problems.join("; ")),
            ));
            return v;
        }
    }
    v
}

/// C17 (R2) / C02: once an endpoint has been asked to close (shutdown, or both halves dropped) and
/// every byte it accepted has been acknowledged, its ST_FIN is on the wire at that very instant -
/// under ANY fault plan (the FIN goes out in the poll that processes the last ACK / the close request).
/// Not demanded once a FIN or RESET of the peer was delivered first, or once the connection died.
pub fn fin_emitted(scn: &Scenario, l: &RunLog) -> Vec<Finding> {
    let mut v = vec![];
    let horizon_us = scn.horizon_s * 1_000_000;
    for side in [Side::A, Side::B] {
        let from_a = side == Side::A;
        let mut seq_end: std::collections::BTreeMap<u16, u64> = Default::default();
        {
            let mut seen: std::collections::BTreeSet<u16> = Default::default();
            let mut pos = 0u64;
            for w in l.wire.iter().filter(|w| w.from_a == from_a && w.ptype == 0 && !w.injected) {
                if seen.insert(w.seq) {
                    pos += w.payload.len() as u64;
                    seq_end.insert(w.seq, pos);
                }
            }
        }
        // an own-initiative FIN comes after every byte write had accepted by then has been transmitted
        // (unless the peer's FIN / RESET arrived first: uTP then cuts the local writer short by design)
        if let Some(fw) = l.wire.iter().find(|w| w.from_a == from_a && w.ptype == 1 && !w.injected && !w.rejected) {
            let transmitted: u64 = l.wire.iter().filter(|w| w.from_a == from_a && w.ptype == 0 && !w.injected && !w.rejected && w.k < fw.k).map(|w| w.seq).collect::<std::collections::BTreeSet<u16>>().iter().filter_map(|s| seq_end_map(l, from_a).get(s).copied()).max().unwrap_or(0);
            let accepted: u64 = l.app.iter().filter(|e| e.side == side && e.t_us <= fw.t_us).map(|e| if let AppEv::WriteAccepted { n, .. } = e.ev { n as u64 } else { 0 }).sum();
            let peer_closed_first = l.wire.iter().any(|w| w.from_a != from_a && (w.ptype == 1 || w.ptype == 3) && delivery_time(l, w.k).map(|d| d <= fw.t_us).unwrap_or(false)) || l.wire.iter().any(|w| w.injected && w.ptype == 3);
            let errored = l.app.iter().any(|e| e.side == side && e.t_us <= fw.t_us && matches!(e.ev, AppEv::WriteErr(_) | AppEv::ReadErr(_) | AppEv::FlushErr(_) | AppEv::ShutdownErr(_)));
            if transmitted < accepted && !peer_closed_first && !errored {
                v.push(f(
                    "C17",
                    "fin-order",
                    "fin/sent-before-all-accepted-data",
                    format!("{} put its ST_FIN (seq {}) on the wire at {} us after transmitting {} of the {} bytes write had accepted by then", side_name(side), fw.seq, fw.t_us, transmitted, accepted),
                ));
            }
        }
        // close request time
        let mut acc = 0u64;
        let mut reader_dropped = false;
        let mut writer_dropped = false;
        let mut t_close: Option<u64> = None;
        for e in l.app.iter().filter(|e| e.side == side) {
            match &e.ev {
                AppEv::WriteAccepted { n, .. } => acc += *n as u64,
                AppEv::ShutdownCalled => {
                    t_close.get_or_insert(e.t_us);
                }
                AppEv::ReaderDropped => reader_dropped = true,
                AppEv::WriterDropped => writer_dropped = true,
                _ => {}
            }
            if reader_dropped && writer_dropped {
                t_close.get_or_insert(e.t_us);
            }
        }
        let Some(tc) = t_close else { continue };
        // first instant at which an ACK covering everything has been delivered
        let mut t_ack: Option<u64> = if acc == 0 { Some(0) } else { None };
        if acc > 0 {
            for w in l.wire.iter().filter(|w| w.from_a != from_a && !w.injected && w.parse_ok) {
                if let (Some(dt), Some(p)) = (delivery_time(l, w.k), seq_end.get(&w.ack)) {
                    if *p >= acc {
                        t_ack = Some(t_ack.map(|x: u64| x.min(dt)).unwrap_or(dt));
                    }
                }
            }
        }
        let Some(ta) = t_ack else { continue };
        let due = tc.max(ta);
        if due > horizon_us {
            continue;
        }
        // exemptions: the peer's FIN/RESET delivered by then, the connection object died by then,
        // the acceptor not yet established, or an error surfaced on this side before
        let peer_closed = l.wire.iter().any(|w| w.from_a != from_a && (w.ptype == 1 || w.ptype == 3) && delivery_time(l, w.k).map(|d| d <= due).unwrap_or(false));
        let injected_reset = l.wire.iter().any(|w| w.injected && w.ptype == 3);
        let errored = l.app.iter().any(|e| e.side == side && e.t_us <= due && matches!(e.ev, AppEv::WriteErr(_) | AppEv::ReadErr(_) | AppEv::FlushErr(_) | AppEv::ShutdownErr(_)));
        if peer_closed || injected_reset || errored || !connection_established_at(l, side, due) {
            continue;
        }
        let fin = l.wire.iter().find(|w| w.from_a == from_a && w.ptype == 1 && !w.injected && !w.rejected);
        let ok = fin.map(|w| w.t_us <= due + 10).unwrap_or(false);
        if !ok {
            v.push(f(
                "C17",
                "fin-emitted",
                if fin.is_none() { "fin/never-sent-after-all-data-acked" } else { "fin/delayed-after-all-data-acked" },
                format!(
                    "{} asked to close at {} us, all {} accepted bytes were acknowledged by {} us, but its ST_FIN {}",
                    side_name(side), tc, acc, ta,
                    match fin { Some(w) => format!("appeared only at {} us", w.t_us), None => "never appeared on the wire".into() }
                ),
            ));
        }
    }
    v
}

/// The stall pattern of a missing persist timer: the only datagram that re-opened a zero receive
/// window was lost, nothing later from that endpoint advertised a non-zero window, and the peer's
/// last knowledge is a zero window.
pub fn zero_window_update_lost(scn: &Scenario, l: &RunLog) -> bool {
    let horizon_us = scn.horizon_s * 1_000_000;
    for from_a in [true, false] {
        let pk: Vec<&WireEventLite> = l.wire.iter().filter(|w| w.from_a == from_a && !w.injected && w.parse_ok && w.ptype != 4 && w.t_us <= horizon_us).collect();
        let mut lost_reopen = false;
        let mut last_delivered_wnd: Option<u32> = None;
        let mut prev_wnd: Option<u32> = None;
        for w in pk {
            let lost = w.fate == Fate::Drop;
            if lost {
                if w.wnd > 0 && prev_wnd == Some(0) {
                    lost_reopen = true;
                }
            } else {
                last_delivered_wnd = Some(w.wnd);
                if w.wnd > 0 {
                    lost_reopen = false;
                }
            }
            prev_wnd = Some(w.wnd);
        }
        if lost_reopen && last_delivered_wnd == Some(0) {
            return true;
        }
    }
    false
}

/// Time of first delivery of send k (None if never delivered).
fn delivery_time(l: &RunLog, k: usize) -> Option<u64> {
    l.delivered.iter().filter(|d| d.1 == k).map(|d| d.0).min()
}

/// C02 clause 2 (promptness on loss-free runs). `rtt_us` = 2 x latency.
///  (a) while accepted bytes are undelivered and the peer's reader is parked, the wire is never
///      silent for longer than RTT + 40 ms;
///  (b) a write on an idle connection is on the wire at the same instant;
///  (c) a shutdown (or dropping the last half) on an idle connection emits ST_FIN at the same instant.
pub fn promptness(scn: &Scenario, l: &RunLog) -> Vec<Finding> {
    let mut v = vec![];
    // nothing is lost on this network: a data segment or FIN that goes out twice means that some
    // retransmission timer decided the pace (e.g. because an acknowledgement was held back too long)
    {
        let mut seen: std::collections::BTreeSet<(bool, u8, u16)> = Default::default();
        for w in l.wire.iter().filter(|w| !w.injected && !w.rejected && (w.ptype == 0 || w.ptype == 1)) {
            if !seen.insert((w.from_a, w.ptype, w.seq)) {
                v.push(f(
                    "C02",
                    "promptness",
                    "promptness/retransmission-on-a-loss-free-network",
                    format!("loss-free run: {} with sequence number {} from {} was put on the wire a second time at {} us: a retransmission timer fired although nothing was lost", if w.ptype == 0 { "ST_DATA" } else { "ST_FIN" }, w.seq, if w.from_a { "A" } else { "B" }, w.t_us),
                ));
                break;
            }
        }
    }
    let rtt = 2 * scn.latency_us;
    let bound = rtt + 40_000 + 10; // + drain slack
    // timeline of (t, kind)
    #[derive(Clone, Copy, PartialEq)]
    enum K {
        Wire,
        App,
    }
    let mut times: Vec<(u64, K, usize)> = vec![];
    for (i, w) in l.wire.iter().enumerate() {
        if !w.injected && !w.rejected {
            times.push((w.t_us, K::Wire, i));
        }
    }
    for (i, e) in l.app.iter().enumerate() {
        times.push((e.t_us, K::App, i));
    }
    times.sort_by_key(|x| (x.0, if x.1 == K::App { 0 } else { 1 }, x.2));
    // state tracked along the timeline
    let mut accepted = [0u64; 2];
    let mut read = [0u64; 2];
    let mut reader_parked = [false; 2];
    let mut reader_gone = [false; 2];
    let mut last_wire_t: Option<u64> = None;
    // since when the silence conditions hold continuously (per direction of data flow: writer side w)
    let mut cond_since: [Option<u64>; 2] = [None, None];
    let mut reported = false;
    let check_silence = |t: u64, cond_since: &[Option<u64>; 2], last_wire_t: Option<u64>, v: &mut Vec<Finding>, reported: &mut bool, why: &str| {
        for w in 0..2 {
            if let (Some(since), Some(lw)) = (cond_since[w], last_wire_t) {
                let start = since.max(lw);
                if t > start && t - start > bound && !*reported {
                    *reported = true;
                    v.push(f(
                        "C02",
                        "promptness",
                        "promptness/wire-silent-with-undelivered-bytes",
                        format!(
                            "loss-free run: wire silent from {} us to {} us ({} us > RTT {} + 40 ms) while bytes written by {} were undelivered and the peer's reader was parked; ended by {}",
                            start, t, t - start, rtt, if w == 0 { "A" } else { "B" }, why
                        ),
                    ));
                }
            }
        }
    };
    for (t, kind, i) in times.iter().copied() {
        match kind {
            K::Wire => {
                check_silence(t, &cond_since, last_wire_t, &mut v, &mut reported, "the next datagram");
                last_wire_t = Some(t);
            }
            K::App => {
                let e = &l.app[i];
                let s = idx(e.side);
                match &e.ev {
                    AppEv::WriteAccepted { n, .. } => accepted[s] += *n as u64,
                    AppEv::ReadGot { n, .. } => {
                        read[s] += *n as u64;
                        reader_parked[s] = false;
                    }
                    AppEv::ReadPending => reader_parked[s] = true,
                    AppEv::ReadEof { .. } | AppEv::ReadErr(_) => {
                        reader_parked[s] = false;
                        reader_gone[s] = true;
                    }
                    AppEv::ReaderDropped | AppEv::ReaderScriptDone => {
                        reader_parked[s] = false;
                        reader_gone[s] = true;
                    }
                    _ => {}
                }
                // re-evaluate conditions for both data directions
                for w in 0..2 {
                    let r = 1 - w;
                    let cond = accepted[w] > read[r] && reader_parked[r] && !reader_gone[r];
                    if cond {
                        if cond_since[w].is_none() {
                            cond_since[w] = Some(t);
                        }
                    } else {
                        if cond_since[w].is_some() {
                            check_silence(t, &cond_since, last_wire_t, &mut v, &mut reported, "an application event");
                        }
                        cond_since[w] = None;
                    }
                }
            }
        }
    }
    // (b)/(c): immediacy on an idle connection
    // idle at time t for side S: every byte S's write accepted before t has been acknowledged by a
    // datagram delivered to S before t, and no FIN sent yet.
    for side in [Side::A, Side::B] {
        let from_a = side == Side::A;
        // first data seq of this side: seq of its first ST_DATA on the wire
        let data: Vec<&WireEventLite> = l.wire.iter().filter(|w| w.from_a == from_a && w.ptype == 0 && !w.injected).collect();
        // cumulative byte position at the end of each seq
        let mut seq_end: std::collections::BTreeMap<u16, u64> = Default::default();
        {
            let mut seen: std::collections::BTreeSet<u16> = Default::default();
            let mut pos = 0u64;
            // first transmissions in time order are in sequence order
            for w in &data {
                if seen.insert(w.seq) {
                    pos += w.payload.len() as u64;
                    seq_end.insert(w.seq, pos);
                }
            }
        }
        // acked bytes as known to `side` at time t: highest seq_end among acks delivered by t
        let acked_at = |t: u64| -> u64 {
            let mut best = 0u64;
            for w in l.wire.iter().filter(|w| w.from_a != from_a && !w.injected && w.parse_ok) {
                if let Some(dt) = delivery_time(l, w.k) {
                    if dt <= t {
                        if let Some(p) = seq_end.get(&w.ack) {
                            best = best.max(*p);
                        }
                    }
                }
            }
            best
        };
        let mut acc = 0u64;
        let mut fin_sent_or_due = false;
        for (i, e) in l.app.iter().enumerate() {
            if e.side != side {
                continue;
            }
            match &e.ev {
                AppEv::WriteAccepted { off, n } => {
                    let idle = acked_at(e.t_us) >= *off && *off == acc && !fin_sent_or_due;
                    acc += *n as u64;
                    // established for the acceptor only once the connector's first packet arrived
                    if idle && connection_established_at(l, side, e.t_us) && peer_window_open_at(l, side, e.t_us) {
                        let on_wire = l.wire.iter().any(|w| w.from_a == from_a && w.ptype == 0 && !w.injected && w.t_us >= e.t_us && w.t_us <= e.t_us + 10);
                        // the accepted bytes may have been sent by the same poll as part of the write loop: look for any ST_DATA covering offset `off`
                        if !on_wire {
                            let later = l.wire.iter().find(|w| w.from_a == from_a && w.ptype == 0 && !w.injected && w.t_us > e.t_us);
                            v.push(f(
                                "C02",
                                "promptness",
                                "promptness/write-on-idle-not-sent-at-once",
                                format!(
                                    "loss-free run: {} wrote {} bytes at offset {} on an idle connection at {} us; no ST_DATA at that instant (next ST_DATA at {:?} us)",
                                    side_name(side), n, off, e.t_us, later.map(|w| w.t_us)
                                ),
                            ));
                            return v;
                        }
                    }
                }
                AppEv::ShutdownCalled | AppEv::WriterDropped => {
                    let is_shutdown = e.ev == AppEv::ShutdownCalled;
                    // dropping the writer alone only closes when the reader is gone too
                    let reader_gone_now = l.app[..i].iter().any(|x| x.side == side && matches!(x.ev, AppEv::ReaderDropped));
                    if !is_shutdown && !reader_gone_now {
                        continue;
                    }
                    if fin_sent_or_due {
                        continue;
                    }
                    fin_sent_or_due = true;
                    let idle = acked_at(e.t_us) >= acc;
                    let remote_fin_seen = l.wire.iter().any(|w| w.from_a != from_a && w.ptype == 1 && delivery_time(l, w.k).map(|d| d <= e.t_us).unwrap_or(false));
                    if !idle && connection_established_at(l, side, e.t_us) {
                        // closing was requested with data outstanding: the FIN is due at the instant the
                        // acknowledgement of the last byte is delivered (progress must not wait for an incidental timer)
                        let mut t_ack: Option<u64> = None;
                        for w in l.wire.iter().filter(|w| w.from_a != from_a && !w.injected && w.parse_ok) {
                            if let (Some(dt), Some(p)) = (delivery_time(l, w.k), seq_end.get(&w.ack)) {
                                if *p >= acc && dt >= e.t_us {
                                    t_ack = Some(t_ack.map(|x: u64| x.min(dt)).unwrap_or(dt));
                                }
                            }
                        }
                        if let Some(ta) = t_ack {
                            let remote_fin_by_then = l.wire.iter().any(|w| w.from_a != from_a && w.ptype == 1 && delivery_time(l, w.k).map(|d| d <= ta).unwrap_or(false));
                            let all_sent = seq_end.values().max().copied().unwrap_or(0) >= acc;
                            if !remote_fin_by_then && all_sent {
                                let fin = l.wire.iter().find(|w| w.from_a == from_a && w.ptype == 1 && !w.injected && w.t_us >= e.t_us);
                                let ok = fin.map(|w| w.t_us <= ta + 10).unwrap_or(false);
                                if !ok {
                                    v.push(f(
                                        "C02",
                                        "promptness",
                                        "promptness/pending-close-fin-delayed",
                                        format!(
                                            "loss-free run: {} requested close at {} us with data outstanding; the last byte's ACK was delivered at {} us but ST_FIN appeared at {:?} us",
                                            side_name(side), e.t_us, ta, fin.map(|w| w.t_us)
                                        ),
                                    ));
                                    return v;
                                }
                            }
                        }
                    }
                    if idle && !remote_fin_seen && connection_established_at(l, side, e.t_us) {
                        let fin = l.wire.iter().find(|w| w.from_a == from_a && w.ptype == 1 && !w.injected && w.t_us >= e.t_us);
                        let ok = fin.map(|w| w.t_us <= e.t_us + 10).unwrap_or(false);
                        if !ok {
                            v.push(f(
                                "C02",
                                "promptness",
                                if is_shutdown { "promptness/shutdown-on-idle-fin-delayed" } else { "promptness/drop-on-idle-fin-delayed" },
                                format!(
                                    "loss-free run: {} called {} on an idle connection at {} us; ST_FIN appeared at {:?} us",
                                    side_name(side), if is_shutdown { "shutdown" } else { "drop of both halves" }, e.t_us, fin.map(|w| w.t_us)
                                ),
                            ));
                            return v;
                        }
                    }
                }
                _ => {}
            }
        }
    }
    v
}

/// The acceptor is established once a packet of the connector was delivered to it; the connector
/// once `connect` returned.
fn connection_established_at(l: &RunLog, side: Side, t: u64) -> bool {
    match side {
        Side::A => l.app.iter().any(|e| e.ev == AppEv::Connected && e.t_us <= t),
        Side::B => l
            .wire
            .iter()
            .any(|w| w.from_a && (w.ptype == 0 || w.ptype == 2) && !w.injected && delivery_time(l, w.k).map(|d| d <= t).unwrap_or(false)),
    }
}

/// Last window the peer advertised to `side` (delivered by t) is non-zero.
fn peer_window_open_at(l: &RunLog, side: Side, t: u64) -> bool {
    let from_a = side == Side::A;
    let mut last: Option<(u64, u32)> = None;
    for w in l.wire.iter().filter(|w| w.from_a != from_a && !w.injected && w.parse_ok && w.ptype != 4) {
        if let Some(dt) = delivery_time(l, w.k) {
            if dt <= t && last.map(|x| dt >= x.0).unwrap_or(true) {
                last = Some((dt, w.wnd));
            }
        }
    }
    last.map(|x| x.1 > 0).unwrap_or(false)
}

pub fn plan_is_fair_lossy(plan: &[(usize, Fate)]) -> bool {
    plan.len() < 5
}

// ---------------------------------------------------------------------------------------------
// C03 honest completion
// ---------------------------------------------------------------------------------------------

/// cumulative stream position at the end of each data sequence number `from_a` sent (first transmissions)
fn seq_end_map(l: &RunLog, from_a: bool) -> std::collections::BTreeMap<u16, u64> {
    // stream position after each sequence number, in order of first appearance. A never-acknowledged
    // MTU probe may be re-cut under the same sequence number: its final size is what the later
    // sequence numbers are laid out behind.
    let mut order: Vec<u16> = vec![];
    let mut last_len: std::collections::BTreeMap<u16, u64> = Default::default();
    for w in l.wire.iter().filter(|w| w.from_a == from_a && w.ptype == 0 && !w.injected && !w.rejected) {
        if last_len.insert(w.seq, w.payload.len() as u64).is_none() {
            order.push(w.seq);
        }
    }
    let mut seq_end: std::collections::BTreeMap<u16, u64> = Default::default();
    let mut pos = 0u64;
    for s in order {
        pos += last_len[&s];
        seq_end.insert(s, pos);
    }
    seq_end
}

/// bytes of `from_a`'s stream whose acknowledgement has been delivered to it by time t
fn acked_bytes_at(l: &RunLog, from_a: bool, seq_end: &std::collections::BTreeMap<u16, u64>, t: u64) -> u64 {
    let mut best = 0u64;
    for w in l.wire.iter().filter(|w| w.from_a != from_a && !w.injected && w.parse_ok) {
        if let Some(dt) = delivery_time(l, w.k) {
            if dt <= t {
                if let Some(p) = seq_end.get(&w.ack) {
                    best = best.max(*p);
                }
            }
        }
    }
    best
}

/// C03. `abort_t_us`: virtual time at which the abort (cut / reset / cancel) took effect, if any;
/// `bound_us`: time after the abort within which every call has to resolve.
pub fn honest_completion(scn: &Scenario, l: &RunLog) -> Vec<Finding> {
    honest_completion_hit(scn, l, &[])
}

/// `hit`: the sides whose own connection was aborted locally (a RESET delivered to it, its socket
/// cancelled). Such a side's application cannot "keep reading", and what it had accepted but not yet
/// transmitted when it was aborted is not owed to the peer's reader.
pub fn honest_completion_hit(scn: &Scenario, l: &RunLog, hit: &[Side]) -> Vec<Finding> {
    let mut v = vec![];
    for side in [Side::A, Side::B] {
        let from_a = side == Side::A;
        let seq_end = seq_end_map(l, from_a);
        let peer = other(side);
        let peer_script = if side == Side::A { &scn.app_b } else { &scn.app_a };
        let peer_keeps_reading = reads_to_eof(peer_script) && !hit.contains(&peer);
        let peer_read_total = l.read[idx(peer)];
        let mut acc = 0u64;
        let mut at_call = 0u64;
        for e in l.app.iter().filter(|e| e.side == side) {
            match &e.ev {
                AppEv::WriteAccepted { n, .. } => acc += *n as u64,
                AppEv::FlushCalled | AppEv::ShutdownCalled => at_call = acc,
                AppEv::FlushOk | AppEv::ShutdownOk => {
                    let what = if e.ev == AppEv::FlushOk { "flush" } else { "shutdown" };
                    let acked = acked_bytes_at(l, from_a, &seq_end, e.t_us);
                    if acked < at_call {
                        v.push(f(
                            "C03",
                            "honest-completion",
                            format!("completion/{what}-ok-before-acked"),
                            format!(
                                "{} {what} returned Ok at {} us but only {} of the {} bytes written before the call had been acknowledged (by a delivered datagram)",
                                side_name(side), e.t_us, acked, at_call
                            ),
                        ));
                    }
                    if peer_keeps_reading && peer_read_total < at_call {
                        v.push(f(
                            "C03",
                            "honest-completion",
                            format!("completion/{what}-ok-but-peer-never-reads-it"),
                            format!(
                                "{} {what} returned Ok at {} us for {} bytes, but the peer application (which keeps reading) got only {} bytes",
                                side_name(side), e.t_us, at_call, peer_read_total
                            ),
                        ));
                    }
                }
                _ => {}
            }
        }
        // EOF position: exactly the bytes that preceded the peer's FIN in sequence space
        let my_eof = l.app.iter().find_map(|e| if e.side == side { if let AppEv::ReadEof { at } = e.ev { Some((at, e.t_us)) } else { None } } else { None });
        if let Some((at, t)) = my_eof {
            let peer_from_a = !from_a;
            let pe = seq_end_map(l, peer_from_a);
            let fin = l.wire.iter().find(|w| w.from_a == peer_from_a && w.ptype == 1 && !w.injected);
            match fin {
                None => v.push(f(
                    "C03",
                    "eof",
                    "eof/without-fin",
                    format!("{} read end-of-stream at offset {} ({} us) although the peer never sent ST_FIN", side_name(side), at, t),
                )),
                Some(fw) => {
                    let before = pe.get(&fw.seq.wrapping_sub(1)).copied().unwrap_or(0);
                    let total_first_tx = pe.values().max().copied().unwrap_or(0);
                    if at != before || at > total_first_tx {
                        v.push(f(
                            "C03",
                            "eof",
                            "eof/position-differs-from-fin",
                            format!("{} read end-of-stream at offset {} but {} bytes precede the peer's FIN (seq {})", side_name(side), at, before, fw.seq),
                        ));
                    }
                    // ... and every byte the peer's write had accepted before the peer closed (shutdown, or
                    // drop of its halves) precedes that FIN - unless this side closed first (uTP has no
                    // half-close: the late side's writer is cut short by design) or the peer's writer saw an error
                    let peer_close_t = l.app.iter().find(|e| e.side == peer && matches!(e.ev, AppEv::ShutdownCalled | AppEv::WriterDropped)).map(|e| e.t_us);
                    let peer_write_err = l.app.iter().any(|e| e.side == peer && matches!(e.ev, AppEv::WriteErr(_) | AppEv::FlushErr(_) | AppEv::ShutdownErr(_)));
                    let my_fin_first = l.wire.iter().any(|w| w.from_a == from_a && w.ptype == 1 && !w.injected && w.k < fw.k);
                    if let Some(tc) = peer_close_t {
                        let accepted_before_close: u64 = l.app.iter().filter(|e| e.side == peer && e.t_us <= tc).map(|e| if let AppEv::WriteAccepted { n, .. } = e.ev { n as u64 } else { 0 }).sum();
                        if !peer_write_err && !my_fin_first && at < accepted_before_close && !hit.contains(&peer) {
                            v.push(f(
                                "C03",
                                "eof",
                                "eof/clean-eof-before-bytes-accepted-before-the-close",
                                format!("{} saw a clean end-of-stream at {} although {}'s writes had accepted {} bytes before it closed (at {} us) and reported no error", side_name(side), at, side_name(peer), accepted_before_close, tc),
                            ));
                        }
                    }
                    // and never a clean EOF with bytes missing while the writer was told shutdown succeeded
                    let peer_shutdown_ok = l.app.iter().any(|e| e.side == peer && e.ev == AppEv::ShutdownOk);
                    if peer_shutdown_ok && at < l.accepted[idx(peer)] {
                        v.push(f(
                            "C03",
                            "eof",
                            "eof/truncated-while-shutdown-ok",
                            format!("{} saw a clean end-of-stream at {} while {}'s shutdown returned Ok for {} bytes", side_name(side), at, side_name(peer), l.accepted[idx(peer)]),
                        ));
                    }
                }
            }
        }
    }
    v
}

/// Library calls as intervals: (side, what, t_call, Option<t_resolved>).
pub fn call_intervals(l: &RunLog) -> Vec<(Side, &'static str, u64, Option<u64>)> {
    let mut out = vec![];
    for side in [Side::A, Side::B] {
        let mut open_w: Option<(&'static str, u64)> = None;
        let mut open_r: Option<u64> = None;
        for e in l.app.iter().filter(|e| e.side == side) {
            match &e.ev {
                AppEv::WritePending => open_w = Some(("write", e.t_us)),
                AppEv::FlushCalled => open_w = Some(("flush", e.t_us)),
                AppEv::ShutdownCalled => open_w = Some(("shutdown", e.t_us)),
                AppEv::WriteAccepted { .. } | AppEv::WriteErr(_) | AppEv::FlushOk | AppEv::FlushErr(_) | AppEv::ShutdownOk | AppEv::ShutdownErr(_) => {
                    if let Some((w, t)) = open_w.take() {
                        out.push((side, w, t, Some(e.t_us)));
                    }
                }
                AppEv::ReadPending => open_r = Some(e.t_us),
                AppEv::ReadGot { .. } | AppEv::ReadEof { .. } | AppEv::ReadErr(_) => {
                    if let Some(t) = open_r.take() {
                        out.push((side, "read", t, Some(e.t_us)));
                    }
                }
                _ => {}
            }
        }
        if let Some((w, t)) = open_w {
            out.push((side, w, t, None));
        }
        if let Some(t) = open_r {
            out.push((side, "read", t, None));
        }
    }
    out
}

/// C03, bounded failure. `hit`: sides whose own connection was aborted directly (RESET delivered to
/// it / its socket cancelled). A side that was not hit is obliged to notice only if it has something
/// outstanding (unacknowledged bytes or an unacknowledged FIN) at or after the abort - "peer vanishes
/// with data outstanding"; an idle endpoint whose peer silently disappears cannot know (no keep-alive).
pub fn bounded_failure(property: &'static str, l: &RunLog, ta: u64, bound_us: u64, hit: &[Side], only_hit: bool) -> Vec<Finding> {
    let mut v = vec![];
    for side in [Side::A, Side::B] {
        let from_a = side == Side::A;
        let mut obliged = hit.contains(&side);
        if only_hit && !obliged {
            continue;
        }
        if !obliged {
            // bytes that no delivered datagram ever acknowledged (an ACK in flight at the abort still counts)
            let seq_end = seq_end_map(l, from_a);
            let acked = acked_bytes_at(l, from_a, &seq_end, u64::MAX);
            // (the harness's own probe writes after the horizon are not "data outstanding when the peer
            // vanished": an idle endpoint has no keep-alive and notices nothing until it sends again)
            let mut accepted_before_probe = 0u64;
            for e in l.app.iter().filter(|e| e.side == side) {
                match &e.ev {
                    AppEv::ProbePhase { .. } => break,
                    AppEv::WriteAccepted { n, .. } => accepted_before_probe += *n as u64,
                    _ => {}
                }
            }
            if accepted_before_probe > acked {
                obliged = true;
            }
            // an unacknowledged FIN
            let probe_t = l.app.iter().find(|e| e.side == side && matches!(e.ev, AppEv::ProbePhase { .. })).map(|e| e.t_us).unwrap_or(u64::MAX);
            if let Some(fin) = l.wire.iter().find(|w| w.from_a == from_a && w.ptype == 1 && !w.injected && w.t_us < probe_t) {
                let fin_acked = l.wire.iter().any(|w| w.from_a != from_a && !w.injected && w.parse_ok && w.ack == fin.seq && delivery_time(l, w.k).is_some());
                if !fin_acked {
                    obliged = true;
                }
            }
        }
        if !obliged {
            continue;
        }
        for (s, what, tc, tr) in call_intervals(l) {
            if s != side || tc > ta + bound_us {
                continue;
            }
            let deadline = tc.max(ta) + bound_us;
            match tr {
                None => {
                    // the peer's last delivered window advertisement
                    let mut last_wnd: Option<(u64, u32)> = None;
                    for w in l.wire.iter().filter(|w| w.from_a != from_a && !w.injected && w.parse_ok && w.ptype != 4) {
                        if let Some(dt) = delivery_time(l, w.k) {
                            if last_wnd.map(|x| dt >= x.0).unwrap_or(true) {
                                last_wnd = Some((dt, w.wnd));
                            }
                        }
                    }
                    let zero_window = last_wnd.map(|x| x.1 == 0).unwrap_or(false) && !hit.contains(&side);
                    v.push(f(
                        property,
                        "bounded-failure",
                        if zero_window { "abort/stuck-behind-zero-window".to_string() } else { format!("abort/{what}-never-resolves") },
                        format!("abort at {} us: {}'s {what} (called at {} us) never resolved (watchdog at {} us)", ta, side_name(side), tc, l.end_us),
                    ));
                    return v;
                }
                Some(t) if t > deadline => {
                    v.push(f(
                        property,
                        "bounded-failure",
                        format!("abort/{what}-resolves-too-late"),
                        format!("abort at {} us: {}'s {what} (called at {} us) resolved at {} us, bound {} us", ta, side_name(side), tc, t, deadline),
                    ));
                    return v;
                }
                _ => {}
            }
        }
    }
    v
}

/// Calls made after the connection has died must report an error when something is at stake:
/// the probe calls (see `AppScript::probe_after`) are logged after `ProbePhase`.
pub fn errors_after_death(l: &RunLog) -> Vec<Finding> {
    let mut v = vec![];
    for side in [Side::A, Side::B] {
        let mut in_probe = false;
        for e in l.app.iter().filter(|e| e.side == side) {
            match &e.ev {
                AppEv::ProbePhase { dead } => in_probe = *dead,
                AppEv::WriteAccepted { n, .. } if in_probe && *n > 0 => {
                    v.push(f(
                        "C03",
                        "errors-after-death",
                        "abort/write-after-death-accepted",
                        format!("{}: the connection object was gone, yet a later write of {} byte(s) returned Ok at {} us", side_name(side), n, e.t_us),
                    ));
                    break;
                }
                _ => {}
            }
        }
    }
    v
}

// ---------------------------------------------------------------------------------------------
// C08 termination, slot release, silence afterwards
// ---------------------------------------------------------------------------------------------

/// Per side: the instant at which the application had let go of the stream (both halves dropped, or
/// shutdown completed) or the connection had failed (first error surfaced to that side).
fn let_go_time(l: &RunLog, side: Side, after: u64) -> Option<u64> {
    let mut rd = None;
    let mut wd = None;
    for e in l.app.iter().filter(|e| e.side == side && e.t_us >= after) {
        match &e.ev {
            AppEv::ShutdownOk => return Some(e.t_us),
            AppEv::WriteErr(_) | AppEv::ReadErr(_) | AppEv::FlushErr(_) | AppEv::ShutdownErr(_) => return Some(e.t_us),
            AppEv::ReaderDropped => rd = Some(e.t_us),
            AppEv::WriterDropped => wd = Some(e.t_us),
            AppEv::CycleStart(_) if e.t_us > after => break,
            _ => {}
        }
        if let (Some(a), Some(b)) = (rd, wd) {
            return Some(a.max(b));
        }
    }
    None
}

pub fn termination(scn: &Scenario, l: &RunLog, cancel: Option<(u64, Side)>, bound_us: u64) -> Vec<Finding> {
    let mut v = vec![];
    let _ = scn;
    // connection objects: creation -> destruction
    let mut objs: Vec<(bool, u16, u64, Option<u64>)> = vec![]; // (owner_a, cid, created, dropped)
    for (t, created, owner_a, cid) in &l.lifecycle {
        if *created {
            objs.push((*owner_a, *cid, *t, None));
        } else if let Some(o) = objs.iter_mut().rev().find(|o| o.0 == *owner_a && o.1 == *cid && o.3.is_none()) {
            o.3 = Some(*t);
        }
    }
    for (owner_a, cid, created, dropped) in &objs {
        let side = if *owner_a { Side::A } else { Side::B };
        if let Some(tl) = let_go_time(l, side, created.saturating_sub(1)) {
            let deadline = tl + bound_us;
            let late = match dropped {
                None => l.end_us > deadline,
                Some(td) => *td > deadline,
            };
            if late {
                v.push(f(
                    "C08",
                    "termination",
                    "termination/connection-outlives-bound",
                    format!(
                        "{}'s application let go (or the connection failed) at {} us; its connection object (send id {}) {} (bound {} us after)",
                        side_name(side), tl, cid,
                        match dropped { Some(td) => format!("ended only at {} us", td), None => format!("was still alive at the end of the run ({} us)", l.end_us) },
                        bound_us
                    ),
                ));
            }
        }
        // silence afterwards
        if let Some(td) = dropped {
            // connection ids may be reused by a later connection object: look only up to its creation
            let reuse = objs.iter().filter(|o| o.0 == *owner_a && o.1 == *cid && o.2 >= *td && !(o.2 == *created && o.3 == *dropped)).map(|o| o.2).min().unwrap_or(u64::MAX);
            if let Some(w) = l.wire.iter().find(|w| w.from_a == *owner_a && !w.injected && w.conn_id == *cid && w.ptype != 4 && w.t_us > *td + 10 && w.t_us < reuse) {
                v.push(f(
                    "C08",
                    "silence",
                    "termination/emission-after-end",
                    format!("{}'s connection object (send id {}) ended at {} us, yet send #{} ({}) was emitted for it at {} us", side_name(side), cid, td, w.k, crate::duo::debug::type_name(w.ptype), w.t_us),
                ));
            }
        }
        // cancellation ends the task promptly
        if let Some((tc, cs)) = cancel {
            if cs == side && *created <= tc {
                let ok = dropped.map(|td| td <= tc + 1_000).unwrap_or(false);
                if !ok {
                    v.push(f(
                        "C08",
                        "cancel",
                        "cancel/task-survives-cancellation",
                        format!("{}'s socket was cancelled at {} us; its connection object ended at {:?}", side_name(side), tc, dropped),
                    ));
                }
            }
        }
    }
    // table entries: once every connection object is gone, both tables are empty
    let all_gone = objs.iter().all(|o| o.3.is_some());
    if all_gone && cancel.is_none() {
        for (i, n) in l.streams_at_end.iter().enumerate() {
            if *n > 0 {
                v.push(f(
                    "C08",
                    "slot-release",
                    "termination/streams-table-entry-leaked",
                    format!("all connection objects are gone but socket {}'s connection table still has {} entr{}", if i == 0 { "A" } else { "B" }, n, if *n == 1 { "y" } else { "ies" }),
                ));
            }
        }
    }
    // black-box: later cycles on the same socket pair (max_live_vsocks = 1) must work
    let mut cycle = 0usize;
    for e in &l.app {
        match &e.ev {
            AppEv::CycleStart(c) => cycle = *c,
            AppEv::CycleLeak { live } => v.push(f(
                "C08",
                "slot-release",
                "termination/slot-not-released-between-cycles",
                format!("cycle {}: {} connection object(s) still alive {} us after the applications finished", cycle, live, bound_us),
            )),
            AppEv::ConnectErr(m) | AppEv::AcceptErr(m) if cycle > 0 => v.push(f(
                "C08",
                "slot-release",
                "termination/reconnect-failed",
                format!("cycle {} on the same socket pair (connection limit 1): {}", cycle, m),
            )),
            _ => {}
        }
    }
    v
}

// ---------------------------------------------------------------------------------------------
// C14 end to end: datagram sizes, probe discipline and settling on a size-blackholing path
// ---------------------------------------------------------------------------------------------
pub fn mtu_wire(scn: &Scenario, l: &RunLog, fault_free: bool) -> Vec<Finding> {
    let mut v = vec![];
    let ip = if scn.ipv6 { 48usize } else { 28 };
    for (from_a, cfg) in [(true, &scn.a), (false, &scn.b)] {
        let limit = cfg.link_mtu - ip; // UDP payload the link allows
        if let Some(w) = l.wire.iter().find(|w| w.from_a == from_a && !w.injected && w.len > limit) {
            v.push(f(
                "C14",
                "datagram-size",
                "mtu/datagram-exceeds-link-mtu",
                format!("send #{} is a {}-byte datagram; link MTU {} ({}) allows {} bytes of UDP payload", w.k, w.len, cfg.link_mtu, if scn.ipv6 { "IPv6" } else { "IPv4" }, limit),
            ));
        }
    }
    // settling (writer A): the largest payload that fits the path
    let ceiling = scn.a.link_mtu - ip - 20;
    let path = scn.blackhole_above.or(scn.emsgsize_above).map(|d| d - 20).unwrap_or(usize::MAX);
    let want = ceiling.min(path);
    let floor = (if scn.ipv6 { 1280usize } else { 576 }).min(scn.a.link_mtu) - ip - 20;
    if want >= floor && fault_free && !l.apps_finished {
        v.push(f(
            "C14",
            "convergence",
            "mtu/transfer-does-not-complete-on-probing-path",
            format!("loss-free run over a path with link ceiling {} and size limit {:?}: the transfer did not complete before the watchdog ({})", ceiling, scn.blackhole_above.or(scn.emsgsize_above), l.stuck.join("; ")),
        ));
    }
    if want >= floor && fault_free && l.apps_finished {
        // first transmissions of A in order
        let mut seen = std::collections::BTreeSet::new();
        let firsts: Vec<&WireEventLite> = l.wire.iter().filter(|w| w.from_a && w.ptype == 0 && !w.injected).filter(|w| seen.insert(w.seq)).collect();
        let range = (ceiling - floor) as u32;
        let max_probes = if range == 0 { 0 } else { 32 - range.leading_zeros() + 1 } as usize;
        // probes = first transmissions larger than anything delivered before
        let mut proven = floor;
        let mut probes = 0usize;
        for w in &firsts {
            let delivered = !w.rejected && w.len <= path.saturating_add(20) && !w.path_lost;
            if w.payload.len() > proven {
                probes += 1;
            }
            if delivered {
                proven = proven.max(w.payload.len());
            }
        }
        // a probe never exceeds the congestion window (F27), so on a jumbo link the first few probes follow
        // the window's slow-start doubling before the bisection proper begins: at most one more logarithm
        let slow_start_probes = if ceiling > 2 * floor { (usize::BITS - (ceiling / (2 * floor)).leading_zeros()) as usize } else { 0 };
        if probes > max_probes + 1 + slow_start_probes {
            v.push(f("C14", "convergence", "mtu/too-many-probes", format!("{} probes on a path whose search range is {} bytes (logarithmic bound {} + {} while the congestion window is smaller than the probe)", probes, range, max_probes, slow_start_probes)));
        }
        let total: usize = firsts.iter().map(|w| w.payload.len()).sum();
        // enough bytes for the whole search: every probe is followed by a cool-down of 3 ordinary segments
        let enough = if ceiling <= 1500 { 50_000 } else { (max_probes + 2) * 4 * ceiling };
        if total >= enough && proven != want {
            v.push(f(
                "C14",
                "convergence",
                "mtu/does-not-settle-on-largest-size-that-fits",
                format!("after {} bytes the largest delivered payload is {} bytes; the largest that fits the path (link ceiling {}, path limit {:?}) is {}", total, proven, ceiling, scn.blackhole_above.or(scn.emsgsize_above), want),
            ));
        }
    }
    v
}
