//! C07 acknowledgement timeliness (solo).
use super::solo_drivers::*;
use crate::common::*;

pub fn run(ctx: &Ctx) -> Outcome {
    let mut out = Outcome::default();
    let d = ctx.tier.pick(9, 12);
    run_and_report(ctx, &rx(ctx.tier, 2, vec![MSS], d), &mut out);
    run_and_report(ctx, &rx(ctx.tier, 4, vec![1, MSS], d), &mut out);
    run_and_report(ctx, &rx(ctx.tier, 3, vec![MSS - 1], d), &mut out);
    run_and_report(ctx, &rx_halfclosed(ctx.tier, d), &mut out);
    run_and_report(ctx, &rx_after_fin(ctx.tier, false, ctx.tier.pick(6, 7)), &mut out);
    run_and_report(ctx, &rx_grown_mss(ctx.tier, ctx.tier.pick(7, 8)), &mut out);
    run_and_report(ctx, &rx_growing_mss(ctx.tier, ctx.tier.pick(7, 8)), &mut out);
    out.rule = "C07: explicit-state BFS over arrival patterns x inter-arrival gaps (5 ms waits, timer ticks) x reader schedules; every accepted packet carries a 40 ms obligation in the monitor state".into();
    out.assumptions.push("deadlines are demanded in Established with a live reader and a transport that accepts the send".into());
    out
}
