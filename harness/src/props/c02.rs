//! C02 progress / promptness (duo part).

use crate::common::*;
use crate::duo::{explore::*, lib, oracles, scenario::*};
use serde_json::json;

pub fn judge(scn: &Scenario, p: &Plan, l: &RunLog) -> Vec<oracles::Finding> {
    let mut v = vec![];
    if oracles::plan_is_fair_lossy(p) {
        v.extend(oracles::progress(scn, l));
    }
    // a size-blackholing path is not "loss-free": the promptness clause does not apply there
    if p.is_empty() && scn.blackhole_above.is_none() && scn.emsgsize_above.is_none() {
        v.extend(oracles::promptness(scn, l));
    }
    v.extend(oracles::fin_emitted(scn, l));
    v.extend(oracles::no_panic_no_bug(l));
    v
}

pub fn run(ctx: &Ctx) -> Outcome {
    let mut out = Outcome::default();
    let always = |_: &RunLog, _: &WireEventLite| true;
    for (i, scn) in lib::core().iter().enumerate() {
        // fin-behind-data drops its reader at once: feeds C03/C08, not the completion clause
        if scn.name == "fin-behind-data" {
            continue;
        }
        let dev = match ctx.tier {
            Tier::Quick => if i < 1 { 3 } else { 2 },
            Tier::Thorough => if i < 2 { 4 } else { 3 },
        };
        // deviations start after the handshake (SYN = #0, SYN-ACK = #1): "on an established connection"
        let cfg = ExploreCfg { max_dev: dev, min_k: 2, fates: fates_basic(), eligible: &always, judge: &judge, max_runs: ctx.tier.pick(400_000, 8_000_000) };
        let r = explore(ctx, scn, &cfg);
        let mut p = Part::fe(&format!("duo:{}", scn.name));
        p.evaluations = r.runs;
        p.distinct_nontrivial = r.distinct_traces;
        p.distinct_outcomes = r.outcome_classes.len() as u64;
        p.bound = format!("all fair-lossy plans with <= {} deviations at send index >= 2; per level {:?}", r.completed_bound, r.per_level);
        if let Some(c) = &r.capped {
            p.caps_hit.push(c.clone());
            p.exhaustive = false;
        }
        p.extra.insert("outcome_classes".into(), json!(r.outcome_classes));
        p.samples.push(json!({"scenario": scn.name, "plan": []}));
        out.violations.extend(findings_to_violations(scn, &r.findings, &judge));
        out.parts.push(p);
    }
    // a trickle of tiny writes (every arrival inside the previous one's delayed-ACK interval)
    {
        let scn = lib::paced_tiny_writes();
        let cfg = ExploreCfg { max_dev: ctx.tier.pick(1, 2), min_k: 2, fates: fates_basic(), eligible: &always, judge: &judge, max_runs: ctx.tier.pick(20_000, 1_000_000) };
        let r = explore(ctx, &scn, &cfg);
        let mut p = Part::fe(&format!("duo:{}", scn.name));
        p.evaluations = r.runs;
        p.distinct_nontrivial = r.distinct_traces;
        p.distinct_outcomes = r.outcome_classes.len() as u64;
        p.bound = format!("all fair-lossy plans with <= {} deviations at send index >= 2; per level {:?}", r.completed_bound, r.per_level);
        if let Some(c) = &r.capped {
            p.caps_hit.push(c.clone());
            p.exhaustive = false;
        }
        p.samples.push(json!({"scenario": scn.name, "plan": []}));
        out.violations.extend(findings_to_violations(&scn, &r.findings, &judge));
        out.parts.push(p);
    }
    // progress on size-blackholing paths (MTU probing active): the fault-free plan and every single drop
    for (bh, em, retx) in [(Some(600usize), None, 1usize), (Some(600), None, 0), (None, Some(620usize), 1), (None, None, 1)] {
        let mut scn = lib::mtu_transfer(700, bh, em, 12_000, false);
        scn.a.probe_retx = retx;
        scn.a.inactivity_ms = 30_000;
        scn.b.inactivity_ms = 30_000;
        scn.horizon_s = 20;
        scn.name = format!("{}-retx{}", scn.name, retx);
        let cfg = ExploreCfg { max_dev: 1, min_k: 2, fates: vec![crate::duo::sim::Fate::Drop], eligible: &always, judge: &judge, max_runs: ctx.tier.pick(5_000, 100_000) };
        let r = explore(ctx, &scn, &cfg);
        let mut p = Part::fe(&format!("duo:{}", scn.name));
        p.evaluations = r.runs;
        p.distinct_nontrivial = r.distinct_traces;
        p.distinct_outcomes = r.outcome_classes.len() as u64;
        p.bound = format!("12 kB over a probing path, all plans with <= {} dropped datagram; per level {:?}", r.completed_bound, r.per_level);
        if let Some(c) = &r.capped {
            p.caps_hit.push(c.clone());
            p.exhaustive = false;
        }
        p.samples.push(json!({"scenario": scn.name, "plan": []}));
        out.violations.extend(findings_to_violations(&scn, &r.findings, &judge));
        out.parts.push(p);
    }
    // the same when the application just drops both halves after writing (no flush, no shutdown)
    for bh in [None, Some(600usize)] {
        let mut scn = lib::mtu_drop_close(700, bh, 6_000);
        scn.a.inactivity_ms = 30_000;
        scn.b.inactivity_ms = 30_000;
        scn.horizon_s = 20;
        let cfg = ExploreCfg { max_dev: 1, min_k: 2, fates: vec![crate::duo::sim::Fate::Drop], eligible: &always, judge: &judge, max_runs: ctx.tier.pick(5_000, 100_000) };
        let r = explore(ctx, &scn, &cfg);
        let mut p = Part::fe(&format!("duo:{}", scn.name));
        p.evaluations = r.runs;
        p.distinct_nontrivial = r.distinct_traces;
        p.distinct_outcomes = r.outcome_classes.len() as u64;
        p.bound = format!("6 kB over a probing path, halves dropped right after the write, all plans with <= {} dropped datagram; per level {:?}", r.completed_bound, r.per_level);
        if let Some(c) = &r.capped {
            p.caps_hit.push(c.clone());
            p.exhaustive = false;
        }
        p.samples.push(json!({"scenario": scn.name, "plan": []}));
        out.violations.extend(findings_to_violations(&scn, &r.findings, &judge));
        out.parts.push(p);
    }
    // "all MTU configurations": the loss-free promptness clause over a grid of link MTUs (the first probe
    // sizes grow with the link MTU; the initial congestion window does not), both address families
    {
        let mut p = Part::fe("duo:link-mtu-grid");
        let mut classes = std::collections::BTreeSet::new();
        let grid: Vec<(usize, bool)> = ctx.tier.pick(vec![600, 1500, 1700, 4000, 9000], vec![600, 700, 1280, 1500, 1600, 1700, 2000, 3000, 4000, 9000, 16_000, 65_000]).into_iter().flat_map(|m| [(m, false), (m.max(1300), true)]).collect();
        for (link, v6) in grid {
            let bytes = (8 * link).max(12_000);
            let mut scn = lib::mtu_transfer(link, None, None, bytes, v6);
            for c in [&mut scn.a, &mut scn.b] {
                c.rx_buf = 1 << 20;
                c.tx_init = 1 << 18;
                c.tx_max = 1 << 20;
                c.inactivity_ms = 30_000;
            }
            scn.horizon_s = 20;
            let cfg = ExploreCfg { max_dev: ctx.tier.pick(0, 1), min_k: 2, fates: vec![crate::duo::sim::Fate::Drop], eligible: &always, judge: &judge, max_runs: ctx.tier.pick(5_000, 100_000) };
            let r = explore(ctx, &scn, &cfg);
            p.evaluations += r.runs;
            p.distinct_nontrivial += r.distinct_traces;
            for c in r.outcome_classes.keys() {
                classes.insert(format!("{link}:{c}"));
            }
            if let Some(c) = &r.capped {
                p.caps_hit.push(c.clone());
                p.exhaustive = false;
            }
            out.violations.extend(findings_to_violations(&scn, &r.findings, &judge));
        }
        p.distinct_outcomes = classes.len() as u64;
        p.bound = format!("link MTUs {} x {{IPv4, IPv6}}, a transfer of 8 link MTUs (at least 12 kB), {}", ctx.tier.pick("{600, 1500, 1700, 4000, 9000}", "{600 .. 65000} (12 values)"), ctx.tier.pick("the loss-free run", "the loss-free run and every single drop"));
        p.samples.push(json!({"link_mtu": 9000, "plan": []}));
        out.parts.push(p);
    }
    // "all buffer configurations": receive buffers between the initial and the largest segment size, both
    // directions busy while the segment size grows
    {
        let mut p = Part::fe("duo:small-rx-buffer-on-probing-path");
        let mut classes = std::collections::BTreeSet::new();
        for rx_buf in ctx.tier.pick(vec![600usize, 1000, 1400], vec![530, 600, 800, 1000, 1200, 1400, 1500, 3000]) {
            let mut scn = lib::small_rx_probing(rx_buf);
            scn.a.inactivity_ms = 30_000;
            scn.b.inactivity_ms = 30_000;
            scn.horizon_s = 20;
            let cfg = ExploreCfg { max_dev: ctx.tier.pick(0, 1), min_k: 2, fates: vec![crate::duo::sim::Fate::Drop], eligible: &always, judge: &judge, max_runs: ctx.tier.pick(5_000, 100_000) };
            let r = explore(ctx, &scn, &cfg);
            p.evaluations += r.runs;
            p.distinct_nontrivial += r.distinct_traces;
            for c in r.outcome_classes.keys() {
                classes.insert(format!("{rx_buf}:{c}"));
            }
            if let Some(c) = &r.capped {
                p.caps_hit.push(c.clone());
                p.exhaustive = false;
            }
            out.violations.extend(findings_to_violations(&scn, &r.findings, &judge));
        }
        p.distinct_outcomes = classes.len() as u64;
        p.bound = format!("A: 20 kB to B over a link MTU of 1500 with a receive buffer of {} bytes, B: 3 kB to A from 400 ms on; {}", ctx.tier.pick("{600, 1000, 1400}", "{530 .. 3000} (8 values)"), ctx.tier.pick("the loss-free run", "the loss-free run and every single drop"));
        p.samples.push(json!({"rx_buf": 1000, "plan": []}));
        out.parts.push(p);
    }
    // a trickle from the peer (one small packet every 5..35 ms, each arrival inside the delayed-ACK interval
    // of the previous one, never 2 segments' worth unacknowledged): the acknowledgement must not be held
    // back until the peer's retransmission timer (>= 200 ms) decides the pace
    out.merge(trickle_from_peer(ctx));
    // clause 3: wake-ups / immediacy / no deadlock, in every state of the flow and close drivers (solo)
    {
        use super::solo_drivers::*;
        let d = ctx.tier.pick(6, 8);
        run_and_report(ctx, &tx_flow(ctx.tier, 8, 32, d), &mut out);
        run_and_report(ctx, &tx_flow(ctx.tier, 8, 8, d), &mut out);
        run_and_report(ctx, &rx(ctx.tier, 2, vec![MSS], d), &mut out);
        run_and_report(ctx, &rx(ctx.tier, 4, vec![1, MSS], d), &mut out);
        run_and_report(ctx, &rx_grown_mss(ctx.tier, d), &mut out);
        run_and_report(ctx, &rx_empty_read(ctx.tier, ctx.tier.pick(6, 8)), &mut out);
        run_and_report(ctx, &close(ctx.tier, d), &mut out);
        run_and_report(ctx, &sack_keepalive(ctx.tier, ctx.tier.pick(6, 9)), &mut out);
        run_and_report(ctx, &rx_halfclosed(ctx.tier, d), &mut out);
        run_and_report(ctx, &mtu(ctx.tier, 700, None, None, 1, ctx.tier.pick(5, 7)), &mut out);
    }
    // the same wake-up obligations when the halves and the connection run on different threads:
    // every interleaving of their critical sections, from every state a few actions deep
    {
        use super::solo_drivers::*;
        use crate::solo::threads::*;
        let tc = ThreadsCfg { base_depth: ctx.tier.pick(1, 3), preemption_bound: ctx.tier.pick(Some(2), Some(3)), max_runs_per_case: ctx.tier.pick(2_000, 100_000), with_suffix: false, triples: true, doubles: true, budget_share: 0.3 };
        explore_threads(ctx, &tx_flow(ctx.tier, 8, 32, 0), &tc, &mut out);
        explore_threads(ctx, &rx(ctx.tier, 2, vec![MSS], 0), &tc, &mut out);
        explore_threads(ctx, &close_plain(ctx.tier, 0), &tc, &mut out);
    }
    out.rule = "C02: every plan of <= d drop/dup/delay deviations (d below the retransmission limit, hence fair) must complete within the horizon; loss-free runs additionally satisfy the promptness clause".into();
    out.assumptions.push("liveness is decided as bounded liveness: virtual-time horizon 20 s with the inactivity timeout configured to 30 s".into());
    out
}


fn trickle_from_peer(ctx: &Ctx) -> Outcome {
    use crate::solo::{bfs, world::*};
    let mut out = Outcome::default();
    let mut part = Part::fe("solo:trickle-from-peer");
    let mut seen = std::collections::HashSet::new();
    for gap in [5u64, 10, 20, 30, 35, 39] {
        for extra_polls in [false, true] {
            let mut cfg = SoloCfg::tiny(10);
            cfg.peer_lens = vec![1];
            cfg.rx_buf = 8 * 10;
            let mut actions = vec![];
            let rounds = (400 / gap).min(19) as usize; // < 20 bytes in total: never two segments' worth
            for _ in 0..rounds {
                actions.push(Act::Deliver(Pkt::Data { off: 0, ack: AckSpec::Cur, wnd: WndSpec::Default }));
                if extra_polls {
                    actions.push(Act::Spurious);
                }
                actions.push(Act::Sleep(gap));
            }
            // (emissions are stamped with the end of their step: short steps keep the timing exact enough)
            for _ in 0..12 {
                actions.push(Act::Sleep(25));
            }
            let d = bfs::Driver { name: format!("trickle-{gap}ms{}", if extra_polls { "-polled" } else { "" }), cfg, prefix: vec![], alphabet: actions.clone(), depth: 0, state_cap: 0 };
            let hist: Vec<u8> = (0..actions.len() as u8).collect();
            let Some((_, Some((w, _)))) = bfs::execute(&d, &hist, true) else { continue };
            part.evaluations += 1;
            // oldest delivered-but-unacknowledged packet along the trace
            let mut pending: Vec<(u16, u64)> = vec![]; // (seq, delivered at)
            let mut worst = 0u64;
            for r in &w.trace {
                for (h, plen, _) in &r.peer_sent {
                    if h.ptype == 0 && *plen > 0 {
                        pending.push((h.seq, r.t_us));
                    }
                }
                for e in &r.emitted {
                    pending.retain(|(s, t)| {
                        let acked = (e.hdr.ack.wrapping_sub(*s) as i16) >= 0;
                        if acked {
                            worst = worst.max(e.t_us.saturating_sub(*t));
                        }
                        !acked
                    });
                }
            }
            if let Some((_, t)) = pending.first() {
                worst = worst.max(w.trace.last().map(|r| r.t_us).unwrap_or(0).saturating_sub(*t));
            }
            seen.insert((gap, extra_polls, worst / 10_000));
            if worst >= 200_000 && !out.violations.iter().any(|v| v.signature == "promptness/acknowledgement-withheld-until-the-peers-retransmission-timer") {
                out.violations.push(Violation {
                    property: "C02".into(),
                    monitor: "promptness".into(),
                    signature: "promptness/acknowledgement-withheld-until-the-peers-retransmission-timer".into(),
                    detail: format!("[{}] an in-order packet from the peer stayed unacknowledged for {} us on a live, loss-free connection (a packet every {} ms): the peer's retransmission timer (>= 200 ms) fires although nothing was lost", d.name, worst, gap),
                    replay: bfs::replay_json(&d, &hist),
                });
            }
        }
    }
    part.distinct_nontrivial = seen.len() as u64;
    part.distinct_outcomes = seen.len() as u64;
    part.bound = "the peer sends 1-byte packets every {5, 10, 20, 30, 35, 39} ms (fewer than 20 bytes in all), with and without an extra poll of the connection after each arrival; outcome = longest time an in-order packet stayed unacknowledged, in 10 ms buckets".into();
    part.samples.push(json!({"gap_ms": 30, "extra_polls": false}));
    out.parts.push(part);
    let _ = ctx;
    out
}
