//! C14 path-MTU discovery (exhaust on SegmentSizes, solo mtu driver, duo blackhole family).
use super::solo_drivers::*;
use crate::common::*;

pub fn run(ctx: &Ctx) -> Outcome {
    let mut out = Outcome::default();
    out.merge(crate::exhaust::segsizes::run(ctx));
    let d = ctx.tier.pick(6, 8);
    let grid: Vec<(usize, Option<usize>, Option<usize>, usize)> = match ctx.tier {
        Tier::Quick => vec![(700, None, None, 1), (700, Some(600), None, 0), (700, Some(600), None, 1), (700, None, Some(620), 1), (1500, Some(1000), None, 0)],
        Tier::Thorough => {
            let mut g = vec![];
            for lm in [600usize, 700, 1500] {
                g.push((lm, None, None, 1));
                for lim in [540usize, 560, 590, 640] {
                    if lim + 48 < lm {
                        for r in [0usize, 1] {
                            g.push((lm, Some(lim), None, r));
                        }
                        g.push((lm, None, Some(lim + 20), 1));
                    }
                }
            }
            g
        }
    };
    for (lm, path, em, r) in grid {
        run_and_report(ctx, &mtu(ctx.tier, lm, path, em, r, d), &mut out);
    }
    run_and_report(ctx, &mtu_v6(ctx.tier, Some(1300), 1, d), &mut out);
    run_and_report(ctx, &mtu_v6(ctx.tier, None, 0, d), &mut out);
    // a jumbo link: probe sizes beyond the initial congestion window
    for r in [0usize, 1] {
        run_and_report(ctx, &mtu_jumbo(ctx.tier, r, d), &mut out);
    }
    // small writes: short segments on the slots where a probe is due, lost together with their retransmission
    for r in [0usize, 1] {
        run_and_report(ctx, &nagle_mtu(ctx.tier, true, r, ctx.tier.pick(6, 8)), &mut out);
    }
    run_and_report(ctx, &nagle_mtu(ctx.tier, false, 0, ctx.tier.pick(6, 8)), &mut out);
    out.merge(crate::props::c01::mtu_family(ctx));
    out.rule = "C14: all link MTUs x all true path limits on the real SegmentSizes; explicit-state BFS of one connection on probing paths (blackhole / EMSGSIZE / peer payload sizes); end-to-end blackhole family over two real sockets".into();
    out
}
