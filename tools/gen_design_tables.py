#!/usr/bin/env python3
"""Rewrites the generated appendix of DESIGN.md from evidence/*.json (Appendix A: parts and measured
bounds of the last run) and seeded/matrix.json + seeded/*/meta.json (Appendix B: detection matrix)."""
import json, glob, os, re
out = []
out.append('## Appendix A — parts and measured bounds (from `evidence/*.json` of the last run on the unchanged tree)\n')
for p in sorted(glob.glob('/verif/evidence/C*.json')):
    e = json.load(open(p))
    c = e['coverage']
    out.append(f"### {e['property_id']} — tier {e['tier']}, level {e['level']}, {e['wall_s']:.1f} s, exhaustive within bounds: {c.get('exhaustive')}\n")
    if c.get('known_findings_hit'):
        out.append('known findings hit: ' + ', '.join(f"{k['id']} ({k['signature']}, {k['occurrences']}x)" for k in c['known_findings_hit']) + '\n')
    out.append('| part | kind | states | transitions | executions | distinct non-trivial | bound |')
    out.append('|---|---|---|---|---|---|---|')
    for part in c.get('parts', []):
        b = str(part.get('bound', '')).replace('|', '\\|')
        if len(b) > 330:
            b = b[:330] + ' …'
        caps = part.get('caps_hit') or []
        if caps:
            b += ' **CAP: ' + '; '.join(caps) + '**'
        out.append(f"| {part.get('name')} | {part.get('kind')} | {part.get('states')} | {part.get('transitions')} | {part.get('evaluations')} | {part.get('distinct_nontrivial')} | {b} |")
    out.append('')
out.append('## Appendix B — detection matrix of the seeded changes (from `seeded/matrix.json`)\n')
out.append('| seed | title | needs to manifest (from the author\'s notes) | checks run → signatures reported |')
out.append('|---|---|---|---|')
m = json.load(open('/verif/seeded/matrix.json')) if os.path.exists('/verif/seeded/matrix.json') else {}
for mp in sorted(glob.glob('/verif/seeded/C*/meta.json')):
    meta = json.load(open(mp))
    sid = meta['id']
    runs = []
    for k, v in sorted(m.get(sid, {}).items()):
        runs.append(f"{k}: " + ('**detected** ' + ', '.join(f'`{s}`' for s in v['signatures'][:3]) if v['exit'] == 1 else ('not detected' if v['exit'] == 0 else f"exit {v['exit']}")))
    need = (meta.get('needs_to_manifest') or '')[:260].replace('|', '\\|')
    title = (meta.get('title') or '').replace('|', '\\|')[:120]
    out.append(f"| {sid} | {title} | {need} | {'<br>'.join(runs)} |")
out.append('')
s = open('/verif/DESIGN.md').read()
s = re.sub(r'<!-- GENERATED-APPENDIX-BEGIN -->.*<!-- GENERATED-APPENDIX-END -->', lambda _: '<!-- GENERATED-APPENDIX-BEGIN -->\n' + '\n'.join(out) + '\n<!-- GENERATED-APPENDIX-END -->', s, flags=re.S)
open('/verif/DESIGN.md', 'w').write(s)
print('appendix:', len(out), 'lines')
