pub mod c01;
pub mod c02;
pub mod c03;
pub mod c08;
