pub mod c01;
pub mod c02;
pub mod c03;
pub mod c08;
pub mod c04;
pub mod c05;
pub mod c07;
pub mod solo_drivers;
