//! Driver library for the `solo` engine.

use crate::common::*;
use crate::solo::{bfs::*, world::*};

pub const MSS: usize = 10;

fn data(off: i32) -> Act {
    Act::Deliver(Pkt::Data { off, ack: AckSpec::Cur, wnd: WndSpec::Default })
}
fn pdata(off: i32) -> Pkt {
    Pkt::Data { off, ack: AckSpec::Cur, wnd: WndSpec::Default }
}
fn state(ack: AckSpec, wnd: WndSpec, sack: SackSpec) -> Act {
    Act::Deliver(Pkt::State { ack, wnd, sack })
}

/// Receiver side: arrival orders x sizes x reader behaviour, window-respecting peer.
pub fn rx(tier: Tier, segs: usize, lens: Vec<usize>, depth: usize) -> Driver {
    let mut cfg = SoloCfg::tiny(MSS);
    cfg.rx_buf = segs * MSS;
    cfg.peer_lens = lens.clone();
    cfg.peer_respects_window = true;
    let alphabet = vec![
        data(0),
        data(1),
        data(-1),
        data(2),
        Act::Deliver2(pdata(0), pdata(0)),
        Act::Deliver(Pkt::Fin { off: 0, ack: AckSpec::Cur }),
        Act::Deliver(Pkt::Fin { off: 1, ack: AckSpec::Cur }),
        Act::Read(1),
        Act::Read(64),
        Act::DropReader,
        Act::Tick,
        Act::Wait(5),
        Act::Spurious,
        Act::RepollReaderOtherTask,
        Act::TransportPendingOnce,
    ];
    Driver { name: format!("rx-{segs}seg-lens{lens:?}"), cfg, prefix: vec![], alphabet, depth, state_cap: tier.pick(400_000, 6_000_000) }
}

/// Reads into an empty buffer between ordinary reads (a chunking an application may produce):
/// they complete at once and never park the reader without a way to wake it.
pub fn rx_empty_read(tier: Tier, depth: usize) -> Driver {
    let mut d = rx(tier, 2, vec![MSS], depth);
    d.name = "rx-empty-read".into();
    d.alphabet = vec![data(0), Act::Deliver(Pkt::Fin { off: 0, ack: AckSpec::Cur }), Act::Read(0), Act::Read(64), Act::Tick, Act::Spurious, Act::DropReader];
    d
}

/// A receive buffer smaller than one segment (9 bytes, segment size 10; the peer sends 5-byte packets).
pub fn rx_sub_mss(tier: Tier, depth: usize) -> Driver {
    let mut d = rx(tier, 1, vec![5], depth);
    d.name = "rx-sub-mss".into();
    d.cfg.rx_buf = MSS - 1;
    d
}

/// Exactly as many in-order packets as the reassembly queue has slots, plus the FIN, handed over in
/// one poll (a sender within the advertised window, a reader that is alive).
pub fn rx_burst_fin(tier: Tier, segs: usize, depth: usize) -> Driver {
    let mut d = rx(tier, segs, vec![MSS], depth);
    d.name = format!("rx-burst-fin-{segs}seg");
    let fin = Pkt::Fin { off: 0, ack: AckSpec::Cur };
    d.alphabet = vec![
        data(0),
        Act::Deliver3(pdata(0), pdata(0), fin.clone()),
        Act::Deliver3(pdata(0), fin.clone(), fin.clone()),
        Act::Deliver2(pdata(0), fin.clone()),
        Act::Deliver(fin),
        Act::Read(64),
        Act::Read(MSS),
        Act::Tick,
    ];
    d
}

/// The peer's initial sequence number is 0 (and 1, 65535): "one before the peer's first packet" wraps.
pub fn rx_peer_isn(tier: Tier, peer_isn: u16, depth: usize) -> Driver {
    let mut d = rx(tier, 4, vec![MSS, 1], depth);
    d.name = format!("rx-peer-isn{peer_isn}");
    d.cfg.peer_isn = peer_isn;
    d
}

/// Vectored reads: two buffers per call (either may be empty, the first may end inside a packet).
pub fn rx_vectored(tier: Tier, depth: usize) -> Driver {
    let mut d = rx(tier, 4, vec![MSS, 3], depth);
    d.name = "rx-vectored".into();
    d.alphabet = vec![data(0), data(1), Act::Deliver(Pkt::Fin { off: 0, ack: AckSpec::Cur }), Act::ReadV(4, 64), Act::ReadV(0, 7), Act::ReadV(MSS, 0), Act::ReadV(1, 1), Act::Read(5), Act::Tick];
    d
}

/// Receiver whose segment size has grown beyond the initial one (link MTU 700, the peer sends 552-byte
/// payloads into a 1200-byte buffer): the window rounds to zero below the *current* segment size.
pub fn rx_grown_mss(tier: Tier, depth: usize) -> Driver {
    let mut d = rx(tier, 2, vec![552, 100], depth);
    d.name = "rx-grown-mss".into();
    d.cfg.link_mtu = 700;
    d.cfg.rx_buf = 1200;
    // two reassembly slots (1200 / 528): a packet two ahead of the expected one does not fit whatever its size
    d.alphabet.retain(|a| *a != data(2));
    // a duplicate and a new (larger) packet in one poll
    d.alphabet.push(Act::Deliver2(pdata(-1), pdata(0)));
    d
}

/// The same with the small payload first: the segment size grows with the second packet.
pub fn rx_growing_mss(tier: Tier, depth: usize) -> Driver {
    let mut d = rx_grown_mss(tier, depth);
    d.name = "rx-growing-mss".into();
    // (link MTU 1500: a single 1400-byte payload more than doubles the segment size)
    d.cfg.link_mtu = 1500;
    d.cfg.peer_lens = vec![100, 1400, 600];
    d.cfg.rx_buf = 8000;
    d
}

/// Receiving while our own direction is already closed (FIN sent and acknowledged).
pub fn rx_halfclosed(tier: Tier, depth: usize) -> Driver {
    let mut d = rx(tier, 2, vec![MSS], depth);
    d.name = "rx-halfclosed".into();
    // our FIN is acknowledged by a data packet (an ST_STATE with the next sequence number would be
    // taken for the peer's FIN by the library's compatibility heuristic and close the connection)
    d.prefix = vec![Act::Shutdown, Act::Deliver(Pkt::Data { off: 0, ack: AckSpec::All, wnd: WndSpec::Default })];
    d
}

/// After the peer's FIN has been consumed and while our own FIN is unacknowledged (last-ack): the FIN
/// again, a FIN with a later number, data numbered past the FIN, stale ACKs. `low_peer_numbers`: the
/// peer's sequence space lies below ours in wrap order (comparisons across the two spaces must not matter).
pub fn rx_after_fin(tier: Tier, low_peer_numbers: bool, depth: usize) -> Driver {
    let mut d = rx(tier, 4, vec![MSS], depth);
    d.name = format!("rx-after-fin{}", if low_peer_numbers { "-lowpeer" } else { "" });
    d.cfg.peer_respects_window = false;
    if low_peer_numbers {
        d.cfg.our_isn = 5_000;
        d.cfg.peer_isn = 100;
    }
    d.prefix = vec![data(0), Act::Deliver(Pkt::Fin { off: 0, ack: AckSpec::Cur })];
    let raw = |ptype: u8, seq_off: i32, payload: usize| Act::Deliver(Pkt::Raw { ptype, seq_off, ack_off: -1, wnd: 1 << 20, sack: None, payload });
    d.alphabet = vec![
        Act::Deliver(Pkt::Fin { off: 0, ack: AckSpec::Cur }),
        raw(1, 1, 0),
        raw(1, 3, 0),
        raw(0, 1, MSS),
        raw(0, 2, MSS),
        raw(0, 0, MSS),
        state(AckSpec::Cur, WndSpec::Default, SackSpec::None),
        Act::Read(64),
        Act::Tick,
        Act::Spurious,
    ];
    d
}

/// The read half is gone while the connection lives and the peer's data keeps arriving (it was in
/// flight when the window closed): in-order packets stay parked in the reassembly queue.
pub fn rx_reader_gone(tier: Tier, depth: usize) -> Driver {
    let mut d = rx(tier, 4, vec![MSS], depth);
    d.name = "rx-reader-gone".into();
    d.cfg.peer_respects_window = false;
    d.prefix = vec![Act::DropReader];
    d.alphabet = vec![
        data(0),
        data(1),
        data(2),
        data(-1),
        Act::Deliver(Pkt::Fin { off: 0, ack: AckSpec::Cur }),
        Act::Spurious,
        Act::Tick,
        Act::Wait(5),
        Act::Write(MSS),
        state(AckSpec::All, WndSpec::Default, SackSpec::None),
    ];
    d
}

/// A full receive buffer, one more packet accepted on top (a zero-window probe: acknowledged, parked
/// in the reassembly queue because the reader queue has no room) and the peer's FIN behind it.
pub fn rx_probe_then_fin(tier: Tier, depth: usize) -> Driver {
    let mut d = rx_rude(tier, depth);
    d.name = "rx-probe-then-fin".into();
    d.cfg.peer_lens = vec![MSS];
    d.prefix = vec![data(0), data(0), data(0), data(0), Act::Deliver(Pkt::Fin { off: 0, ack: AckSpec::Cur })];
    d.alphabet = vec![Act::Read(64), Act::Read(3), Act::Spurious, Act::Tick, Act::Deliver(Pkt::Fin { off: 0, ack: AckSpec::Cur }), Act::RepollReaderOtherTask];
    d
}

/// Receiver side with a peer that ignores the window (beyond the window, far ahead, after FIN).
pub fn rx_rude(tier: Tier, depth: usize) -> Driver {
    let mut cfg = SoloCfg::tiny(MSS);
    cfg.rx_buf = 3 * MSS;
    cfg.peer_lens = vec![MSS, 1];
    cfg.peer_respects_window = false;
    let alphabet = vec![
        data(0),
        data(1),
        data(-1),
        data(2),
        data(3),
        data(1025),
        Act::Deliver(Pkt::Fin { off: 0, ack: AckSpec::Cur }),
        Act::Deliver(Pkt::Fin { off: 1, ack: AckSpec::Cur }),
        Act::Read(64),
        Act::Read(3),
        Act::Tick,
    ];
    Driver { name: "rx-rude".into(), cfg, prefix: vec![], alphabet, depth, state_cap: tier.pick(400_000, 6_000_000) }
}

/// Sender side: ACK / window histories x writes.
pub fn tx_window(tier: Tier, nagle: bool, mss: usize, depth: usize) -> Driver {
    let mut cfg = SoloCfg::tiny(mss);
    cfg.nagle = nagle;
    cfg.tx_init = 8 * mss;
    cfg.tx_max = 8 * mss;
    cfg.peer_wnd = 4 * mss as u32;
    let w = |b: usize| WndSpec::Bytes(b as u32);
    let alphabet = vec![
        Act::Write(3 * mss),
        Act::Write(1),
        state(AckSpec::Cur, w(4 * mss), SackSpec::None),
        state(AckSpec::Plus(1), w(4 * mss), SackSpec::None),
        state(AckSpec::All, w(4 * mss), SackSpec::None),
        state(AckSpec::All, w(0), SackSpec::None),
        state(AckSpec::Plus(1), w(1), SackSpec::None),
        state(AckSpec::Cur, w(mss), SackSpec::None),
        state(AckSpec::All, w(2 * mss), SackSpec::None),
        state(AckSpec::Cur, w(1 << 20), SackSpec::None),
        Act::Tick,
        Act::Spurious,
    ];
    Driver { name: format!("tx-window-mss{mss}-nagle{nagle}"), cfg, prefix: vec![], alphabet, depth, state_cap: tier.pick(400_000, 6_000_000) }
}

/// Retransmission discipline: loss / ACK / SACK / stale histories x timer expiries.
pub fn rtx(tier: Tier, max_retx: usize, grown: bool, depth: usize) -> Driver {
    let mut cfg = SoloCfg::tiny(MSS);
    cfg.tx_init = 16 * MSS;
    cfg.tx_max = 16 * MSS;
    cfg.max_retx = max_retx;
    let def = WndSpec::Default;
    let alphabet = vec![
        Act::Write(3 * MSS),
        state(AckSpec::Cur, def, SackSpec::None),
        state(AckSpec::Plus(1), def, SackSpec::None),
        state(AckSpec::All, def, SackSpec::None),
        state(AckSpec::Stale, def, SackSpec::None),
        state(AckSpec::Cur, def, SackSpec::FirstN(1)),
        state(AckSpec::Cur, def, SackSpec::Raw(vec![0b10, 0, 0, 0, 0, 0, 0, 0])),
        state(AckSpec::Cur, def, SackSpec::AllSent),
        state(AckSpec::Cur, def, SackSpec::Raw(vec![0b0001_1101, 0, 0, 0, 0, 0, 0, 0])),
        Act::Tick,
        Act::Wait(50),
        Act::Shutdown,
    ];
    // a grown congestion window so that more than two segments can be in flight
    let prefix = if grown {
        vec![Act::Write(2 * MSS), state(AckSpec::All, def, SackSpec::None), Act::Write(4 * MSS), state(AckSpec::All, def, SackSpec::None), Act::Write(5 * MSS)]
    } else {
        vec![]
    };
    Driver { name: format!("rtx-retx{max_retx}-{}", if grown { "grown" } else { "fresh" }), cfg, prefix, alphabet, depth, state_cap: tier.pick(400_000, 6_000_000) }
}

/// A hole that stays open while the peer keeps reporting the segments behind it one by one: the
/// inactivity timeout (short here) must count from the peer's last news, not from the last cumulative ACK.
pub fn sack_keepalive(tier: Tier, depth: usize) -> Driver {
    let mut d = rtx(tier, 5, true, depth);
    let def = WndSpec::Default;
    d.name = "sack-keepalive".into();
    d.cfg.inactivity_ms = 400;
    d.alphabet = vec![
        Act::Wait(150),
        state(AckSpec::Cur, def, SackSpec::FirstN(1)),
        state(AckSpec::Cur, def, SackSpec::FirstN(2)),
        state(AckSpec::Cur, def, SackSpec::FirstN(3)),
        state(AckSpec::Plus(1), def, SackSpec::None),
        state(AckSpec::All, def, SackSpec::None),
        Act::Tick,
    ];
    d
}

/// Right after a fast recovery has ended (the ACK that ends it releases new data): duplicate
/// ACKs of *that* ACK must count from it.
pub fn rtx_after_fast_recovery(tier: Tier, depth: usize) -> Driver {
    let mut d = rtx(tier, 5, false, depth);
    let def = WndSpec::Default;
    d.name = "rtx-after-fast-recovery".into();
    d.prefix = vec![
        Act::Write(3 * MSS),
        state(AckSpec::Cur, def, SackSpec::None),
        state(AckSpec::Cur, def, SackSpec::None),
        state(AckSpec::Cur, def, SackSpec::None),
        state(AckSpec::All, def, SackSpec::None),
    ];
    d.alphabet = vec![
        state(AckSpec::Cur, def, SackSpec::None),
        state(AckSpec::Plus(1), def, SackSpec::None),
        state(AckSpec::All, def, SackSpec::None),
        state(AckSpec::Cur, def, SackSpec::FirstN(1)),
        Act::Write(3 * MSS),
        Act::Tick,
    ];
    d
}

/// A long recovery: five segments in flight, fast retransmit, more data written and sent *during* the
/// recovery, then an ACK that goes beyond the recovery point and ends it.
pub fn rtx_after_long_recovery(tier: Tier, depth: usize) -> Driver {
    let mut d = rtx(tier, 5, true, depth);
    let def = WndSpec::Default;
    d.name = "rtx-after-long-recovery".into();
    d.prefix.push(state(AckSpec::Cur, def, SackSpec::None));
    d.prefix.push(state(AckSpec::Cur, def, SackSpec::None));
    d.prefix.push(state(AckSpec::Cur, def, SackSpec::None));
    d.prefix.push(Act::Write(3 * MSS));
    // partial ACKs: each one retransmits the next hole and, as the pipe drains, releases new data
    d.prefix.push(state(AckSpec::Plus(1), def, SackSpec::None));
    d.prefix.push(state(AckSpec::Plus(1), def, SackSpec::None));
    d.prefix.push(state(AckSpec::Plus(1), def, SackSpec::None));
    d.prefix.push(state(AckSpec::All, def, SackSpec::None));
    d.alphabet = vec![
        state(AckSpec::Cur, def, SackSpec::None),
        state(AckSpec::Plus(1), def, SackSpec::None),
        state(AckSpec::All, def, SackSpec::None),
        Act::Write(3 * MSS),
        Act::Tick,
    ];
    d
}

/// Acknowledgements that ride on the peer's own data and FIN packets (in order, ahead of a gap,
/// duplicate) instead of on ST_STATE.
pub fn rtx_piggyback(tier: Tier, depth: usize) -> Driver {
    let mut d = rtx(tier, 5, false, depth);
    let def = WndSpec::Default;
    d.name = "rtx-piggyback".into();
    d.cfg.peer_lens = vec![MSS];
    d.alphabet = vec![
        Act::Write(3 * MSS),
        Act::Deliver(Pkt::Data { off: 0, ack: AckSpec::All, wnd: def }),
        Act::Deliver(Pkt::Data { off: 1, ack: AckSpec::All, wnd: def }),
        Act::Deliver(Pkt::Data { off: -1, ack: AckSpec::Plus(1), wnd: def }),
        Act::Deliver(Pkt::Fin { off: 0, ack: AckSpec::All }),
        Act::Deliver(Pkt::Fin { off: 1, ack: AckSpec::All }),
        Act::Deliver(Pkt::Fin { off: 1, ack: AckSpec::Plus(1) }),
        state(AckSpec::Cur, def, SackSpec::None),
        Act::Tick,
        Act::Wait(50),
        Act::TransportPendingOnce,
    ];
    d
}

/// After a retransmission timeout that hit during fast recovery (C06: fast retransmit must work again
/// once the timeout recovery is over).
pub fn rtx_after_recovery_rto(tier: Tier, depth: usize) -> Driver {
    let mut d = rtx(tier, 5, true, depth);
    let def = WndSpec::Default;
    d.name = "rtx-after-recovery-rto".into();
    d.prefix.push(state(AckSpec::Cur, def, SackSpec::Raw(vec![0b0001_1101, 0, 0, 0, 0, 0, 0, 0])));
    d.prefix.push(Act::Tick);
    d.alphabet = vec![
        state(AckSpec::All, def, SackSpec::None),
        Act::Write(3 * MSS),
        state(AckSpec::Cur, def, SackSpec::None),
        state(AckSpec::Cur, def, SackSpec::FirstN(1)),
        state(AckSpec::Cur, def, SackSpec::AllSent),
        state(AckSpec::Plus(1), def, SackSpec::None),
        Act::Tick,
    ];
    d
}

/// Sender side with a large peer window: slow start and reordering (SACK then cumulative ACK).
pub fn tx_slowstart(tier: Tier, depth: usize) -> Driver {
    let mut cfg = SoloCfg::tiny(MSS);
    cfg.tx_init = 32 * MSS;
    cfg.tx_max = 32 * MSS;
    let def = WndSpec::Default;
    let alphabet = vec![
        Act::Write(3 * MSS),
        Act::Write(8 * MSS),
        state(AckSpec::All, def, SackSpec::None),
        state(AckSpec::Plus(1), def, SackSpec::None),
        state(AckSpec::Plus(2), def, SackSpec::None),
        state(AckSpec::Cur, def, SackSpec::FirstN(1)),
        state(AckSpec::Cur, def, SackSpec::Raw(vec![0b10, 0, 0, 0, 0, 0, 0, 0])),
        Act::Tick,
    ];
    Driver { name: "tx-slowstart".into(), cfg, prefix: vec![], alphabet, depth, state_cap: tier.pick(400_000, 6_000_000) }
}

/// Slow start with head-room for MTU probing (working size 528, ceiling 1452) while the peer sends
/// data of its own: the two-segment allowance is two segments of the working size.
pub fn tx_slowstart_mtu(tier: Tier, depth: usize) -> Driver {
    let mut cfg = SoloCfg::tiny(MSS);
    cfg.link_mtu = 1500;
    cfg.rx_buf = 64 * 1024;
    cfg.tx_init = 64 * 1024;
    cfg.tx_max = 64 * 1024;
    cfg.nagle = false;
    cfg.peer_lens = vec![5];
    let def = WndSpec::Default;
    let alphabet = vec![
        Act::Write(528),
        Act::Write(3000),
        state(AckSpec::All, def, SackSpec::None),
        state(AckSpec::Plus(1), def, SackSpec::None),
        Act::Deliver(Pkt::Data { off: 0, ack: AckSpec::Cur, wnd: def }),
        Act::Deliver(Pkt::Data { off: 0, ack: AckSpec::Plus(1), wnd: def }),
        Act::Tick,
    ];
    Driver { name: "tx-slowstart-mtu".into(), cfg, prefix: vec![], alphabet, depth, state_cap: tier.pick(300_000, 4_000_000) }
}

/// Window-limited sender whose segment size grows because the peer uses larger payloads.
pub fn tx_window_mtu(tier: Tier, depth: usize) -> Driver {
    let mut cfg = SoloCfg::tiny(MSS);
    cfg.link_mtu = 700;
    cfg.rx_buf = 64 * 1024;
    cfg.tx_init = 64 * 1024;
    cfg.tx_max = 64 * 1024;
    cfg.peer_wnd = 2 * 528;
    let w = WndSpec::Bytes(2 * 528);
    let alphabet = vec![
        Act::Write(3000),
        state(AckSpec::All, w, SackSpec::None),
        state(AckSpec::Plus(1), w, SackSpec::None),
        state(AckSpec::Cur, w, SackSpec::None),
        Act::Deliver(Pkt::DataLen { off: 0, len: 560 }),
        Act::Deliver(Pkt::DataLen { off: 0, len: 100 }),
        Act::Tick,
    ];
    Driver { name: "tx-window-mtu".into(), cfg, prefix: vec![], alphabet, depth, state_cap: tier.pick(300_000, 4_000_000) }
}

/// Handshake / teardown from a given initial state.
pub fn fsm(tier: Tier, name: &str, incoming: bool, prefix: Vec<Act>, wait_last_ack: bool, depth: usize) -> Driver {
    let mut cfg = SoloCfg::tiny(MSS);
    cfg.incoming = incoming;
    cfg.max_retx = 2;
    cfg.wait_last_ack = wait_last_ack;
    cfg.inactivity_ms = 3_000;
    let def = WndSpec::Default;
    let alphabet = vec![
        data(0),
        state(AckSpec::All, def, SackSpec::None),
        state(AckSpec::Cur, def, SackSpec::None),
        Act::Deliver(Pkt::Fin { off: 0, ack: AckSpec::All }),
        Act::Deliver(Pkt::Fin { off: 0, ack: AckSpec::Cur }),
        Act::Deliver(Pkt::Fin { off: 1, ack: AckSpec::Cur }),
        Act::Deliver(Pkt::Reset { ack: AckSpec::All }),
        Act::Deliver(Pkt::Syn),
        Act::Write(5),
        Act::Shutdown,
        Act::DropReader,
        Act::DropWriter,
        Act::Read(64),
        Act::Tick,
    ];
    Driver { name: format!("fsm-{name}-lastack{wait_last_ack}"), cfg, prefix, alphabet, depth, state_cap: tier.pick(300_000, 5_000_000) }
}

pub fn fsm_all(tier: Tier, depth: usize) -> Vec<Driver> {
    let def = WndSpec::Default;
    let mut v = vec![];
    for wla in [true, false] {
        v.push(fsm(tier, "incoming", true, vec![], wla, depth));
        v.push(fsm(tier, "established", false, vec![], wla, depth));
        v.push(fsm(tier, "inflight", false, vec![Act::Write(25)], wla, depth));
        v.push(fsm(tier, "finwait1", false, vec![Act::Shutdown], wla, depth));
        v.push(fsm(tier, "lastack", false, vec![Act::Deliver(Pkt::Fin { off: 0, ack: AckSpec::Cur })], wla, depth));
        v.push(fsm(tier, "finwait2", false, vec![Act::Shutdown, Act::Deliver(Pkt::Data { off: 0, ack: AckSpec::All, wnd: def })], wla, depth));
    }
    v
}

/// The same teardown states with two datagrams handed to the connection in one poll (a duplicated
/// closing packet, an ACK right behind a FIN, ...): the packet behind the one that completes the
/// close must not change the outcome.
pub fn fsm_batch_all(tier: Tier, depth: usize) -> Vec<Driver> {
    let def = WndSpec::Default;
    let fin = |ack| Pkt::Fin { off: 0, ack };
    let st = |ack| Pkt::State { ack, wnd: def, sack: SackSpec::None };
    let mut v = vec![];
    for mut d in fsm_all(tier, depth) {
        if d.cfg.incoming {
            continue;
        }
        d.name = d.name.replace("fsm-", "fsm-batch-");
        d.cfg.peer_lens = vec![3];
        d.alphabet = vec![
            Act::Deliver2(fin(AckSpec::All), fin(AckSpec::All)),
            Act::Deliver2(fin(AckSpec::All), st(AckSpec::All)),
            Act::Deliver2(st(AckSpec::All), st(AckSpec::All)),
            Act::Deliver2(st(AckSpec::All), fin(AckSpec::All)),
            Act::Deliver2(Pkt::Data { off: 0, ack: AckSpec::All, wnd: def }, fin(AckSpec::All)),
            state(AckSpec::All, def, SackSpec::None),
            Act::Deliver(fin(AckSpec::Cur)),
            Act::Write(5),
            Act::Shutdown,
            Act::DropReader,
            Act::DropWriter,
            Act::Read(64),
            Act::Tick,
        ];
        v.push(d);
    }
    v
}

/// A closing connection whose last data segment is lost: the loss recovery that repairs the tail
/// re-sends the FIN behind it once; after that the FIN is repeated on timeout only.
pub fn fin_tail_recovery(tier: Tier, last_ack: bool, depth: usize) -> Driver {
    let mut d = rtx(tier, 5, false, depth);
    let def = WndSpec::Default;
    d.name = format!("fin-tail-recovery-{}", if last_ack { "lastack" } else { "finwait1" });
    d.cfg.peer_lens = vec![3];
    d.prefix = if last_ack { vec![Act::Write(MSS), Act::Deliver(Pkt::Fin { off: 0, ack: AckSpec::Cur })] } else { vec![Act::Write(MSS), Act::Shutdown] };
    d.alphabet = vec![
        state(AckSpec::Cur, def, SackSpec::None),
        state(AckSpec::Plus(1), def, SackSpec::None),
        state(AckSpec::All, def, SackSpec::None),
        Act::Deliver(Pkt::Data { off: 0, ack: AckSpec::Cur, wnd: def }),
        Act::Spurious,
        Act::Tick,
        Act::Wait(50),
    ];
    d
}

/// Nagle coalescing.
pub fn nagle(tier: Tier, on: bool, depth: usize) -> Driver {
    let mut cfg = SoloCfg::tiny(MSS);
    cfg.nagle = on;
    cfg.tx_init = 16 * MSS;
    cfg.tx_max = 16 * MSS;
    let w = |b: usize| WndSpec::Bytes(b as u32);
    let alphabet = vec![
        Act::Write(1),
        Act::Write(MSS - 1),
        Act::Write(MSS),
        Act::Write(MSS + 1),
        Act::Write(2 * MSS + 1),
        Act::Write(2),
        state(AckSpec::All, w(MSS), SackSpec::None),
        state(AckSpec::All, w(MSS + 5), SackSpec::None),
        state(AckSpec::All, w(3 * MSS + 1), SackSpec::None),
        state(AckSpec::Plus(1), w(1 << 20), SackSpec::None),
        state(AckSpec::All, w(1 << 20), SackSpec::None),
        Act::Spurious,
        Act::Tick,
    ];
    Driver { name: format!("nagle-{}", if on { "on" } else { "off" }), cfg, prefix: vec![], alphabet, depth, state_cap: tier.pick(400_000, 6_000_000) }
}

/// Nagle while loss recovery is in progress: a grown window, five segments in flight, then SACK
/// evidence; new small and odd-sized writes arrive while the recovery window (not a multiple of the
/// segment size) is what meters transmission.
pub fn nagle_recovery(tier: Tier, depth: usize) -> Driver {
    let mut d = nagle(tier, true, depth);
    let def = WndSpec::Default;
    d.name = "nagle-recovery".into();
    d.prefix = vec![
        Act::Write(2 * MSS),
        state(AckSpec::All, def, SackSpec::None),
        Act::Write(4 * MSS),
        state(AckSpec::All, def, SackSpec::None),
        Act::Write(5 * MSS),
    ];
    d.alphabet = vec![
        Act::Write(1),
        Act::Write(MSS + 3),
        Act::Write(3 * MSS + 1),
        state(AckSpec::Cur, def, SackSpec::Raw(vec![0b0001_1101, 0, 0, 0, 0, 0, 0, 0])),
        state(AckSpec::Cur, def, SackSpec::FirstN(1)),
        state(AckSpec::Cur, def, SackSpec::AllSent),
        state(AckSpec::Plus(1), def, SackSpec::None),
        state(AckSpec::Plus(1), def, SackSpec::AllSent),
        state(AckSpec::All, def, SackSpec::None),
        Act::Tick,
    ];
    d
}

/// Send buffer bound and back-pressure: tiny ring, growth, ACK schedules.
pub fn tx_flow(tier: Tier, init: usize, max: usize, depth: usize) -> Driver {
    let mss = 4;
    let mut cfg = SoloCfg::tiny(mss);
    cfg.tx_init = init;
    cfg.tx_max = max;
    let w = |b: usize| WndSpec::Bytes(b as u32);
    let alphabet = vec![
        Act::Write(1),
        Act::Write(7),
        Act::Write(8),
        Act::Write(9),
        Act::Write(40),
        state(AckSpec::Plus(1), w(1 << 20), SackSpec::None),
        state(AckSpec::All, w(1 << 20), SackSpec::None),
        state(AckSpec::All, w(0), SackSpec::None),
        state(AckSpec::Cur, w(1 << 20), SackSpec::None),
        Act::Flush,
        Act::Tick,
        Act::RepollWriterOtherTask,
    ];
    Driver { name: format!("tx-flow-{init}-{max}"), cfg, prefix: vec![], alphabet, depth, state_cap: tier.pick(400_000, 6_000_000) }
}

/// Writes of zero bytes between ordinary writes ("all write sizes"): they complete at once and never
/// park the writer while the ring has room.
pub fn tx_empty_write(tier: Tier, depth: usize) -> Driver {
    let mut d = tx_flow(tier, 8, 8, depth);
    d.name = "tx-empty-write".into();
    let w = |b: usize| WndSpec::Bytes(b as u32);
    d.alphabet = vec![Act::Write(0), Act::Write(5), Act::Write(8), state(AckSpec::All, w(1 << 20), SackSpec::None), state(AckSpec::Plus(1), w(1 << 20), SackSpec::None), Act::Flush, Act::Shutdown, Act::Tick];
    d
}

/// Ring growth with a partly filled ring: the congestion window has outgrown the 20-byte ring, which
/// grows (towards 80) as soon as it is more than 90 % full - i.e. with one byte still free.
pub fn tx_grow(tier: Tier, depth: usize) -> Driver {
    let mut d = tx_flow(tier, 20, 80, depth);
    d.name = "tx-grow-20-80".into();
    let w = |b: usize| WndSpec::Bytes(b as u32);
    d.prefix = vec![
        Act::Write(8),
        state(AckSpec::All, w(1 << 20), SackSpec::None),
        Act::Write(16),
        state(AckSpec::All, w(1 << 20), SackSpec::None),
        Act::Write(18),
        state(AckSpec::All, w(1 << 20), SackSpec::None),
        state(AckSpec::All, w(1 << 20), SackSpec::None),
    ];
    d.alphabet = vec![
        Act::Write(19),
        Act::Write(1),
        Act::Write(2),
        Act::Write(40),
        state(AckSpec::Plus(1), w(1 << 20), SackSpec::None),
        state(AckSpec::All, w(1 << 20), SackSpec::None),
        state(AckSpec::Cur, w(1 << 20), SackSpec::None),
        Act::Flush,
        Act::Tick,
        Act::Spurious,
        Act::RepollWriterOtherTask,
    ];
    d
}

/// Close paths: flush / shutdown / drop of either half in every order, with data in either direction.
pub fn close(tier: Tier, depth: usize) -> Driver {
    let cfg = SoloCfg::tiny(MSS);
    let def = WndSpec::Default;
    let alphabet = vec![
        Act::Write(15),
        data(0),
        state(AckSpec::All, def, SackSpec::None),
        Act::Deliver(Pkt::Fin { off: 0, ack: AckSpec::All }),
        Act::Read(64),
        Act::Flush,
        Act::Shutdown,
        Act::DropReader,
        Act::DropWriter,
        Act::Tick,
        Act::Spurious,
        Act::TransportPendingOnce,
    ];
    Driver { name: "close".into(), cfg, prefix: vec![], alphabet, depth, state_cap: tier.pick(400_000, 6_000_000) }
}

/// `close` without the refusing transport (for the thread-schedule parts, whose case count is budgeted)
pub fn close_plain(tier: Tier, depth: usize) -> Driver {
    let mut d = close(tier, depth);
    d.alphabet.retain(|a| *a != Act::TransportPendingOnce);
    d
}

/// Closing while the local transport refuses a datagram now and then (a full UDP send buffer) and the
/// peer's window is sometimes too small for the next segment: what was refused has not been sent.
pub fn close_refused(tier: Tier, depth: usize) -> Driver {
    let mut d = close(tier, depth);
    let def = WndSpec::Default;
    d.name = "close-refused".into();
    d.alphabet = vec![
        Act::Write(15),
        Act::Write(5),
        Act::Write(25),
        Act::TransportPendingOnce,
        Act::TransportPendingHold,
        state(AckSpec::All, def, SackSpec::None),
        state(AckSpec::All, WndSpec::Bytes(3), SackSpec::None),
        state(AckSpec::Plus(1), WndSpec::Bytes(3), SackSpec::None),
        Act::Shutdown,
        Act::DropReader,
        Act::DropWriter,
        Act::Tick,
    ];
    d
}

/// Many consecutive timeouts of one segment (a large retransmission limit, a peer that stays silent for
/// minutes): the back-off doubles up to the 60 s ceiling and stays there.
pub fn rtx_long_backoff(tier: Tier, depth: usize) -> Driver {
    let mut d = rtx(tier, 14, false, depth);
    d.name = "rtx-long-backoff".into();
    d.cfg.inactivity_ms = 3_600_000;
    d.alphabet = vec![Act::Write(MSS), Act::Tick, Act::Shutdown];
    d
}

/// Retransmission discipline with a transport that refuses a datagram now and then: a refusal is not a
/// transmission (it must not count towards the retry cap).
pub fn rtx_refused(tier: Tier, max_retx: usize, depth: usize) -> Driver {
    let mut d = rtx(tier, max_retx, false, depth);
    let def = WndSpec::Default;
    d.name = format!("rtx-refused-retx{max_retx}");
    d.alphabet = vec![Act::Write(MSS), Act::Write(3 * MSS), Act::TransportPendingOnce, state(AckSpec::Plus(1), def, SackSpec::None), state(AckSpec::All, def, SackSpec::None), Act::Tick];
    d
}

/// Hostile datagrams from a given initial state.
pub fn hostile(tier: Tier, name: &str, incoming: bool, prefix: Vec<Act>, depth: usize) -> Driver {
    let mut cfg = SoloCfg::tiny(MSS);
    cfg.incoming = incoming;
    cfg.rx_buf = 4 * MSS;
    cfg.max_retx = 3;
    cfg.hostile_sack = true;
    let def = WndSpec::Default;
    let mut alphabet: Vec<Act> = vec![];
    for ack in [AckSpec::Stale, AckSpec::Cur, AckSpec::Plus(1), AckSpec::All, AckSpec::Beyond, AckSpec::Far, AckSpec::Half] {
        alphabet.push(state(ack, def, SackSpec::None));
    }
    for wnd in [0u32, 1, u32::MAX] {
        alphabet.push(state(AckSpec::Cur, WndSpec::Bytes(wnd), SackSpec::None));
    }
    for len in [0usize, 1, 4, 8, 9, 36] {
        for pat in [0x00u8, 0xff, 0xaa] {
            if len == 0 && pat != 0 {
                continue;
            }
            alphabet.push(state(AckSpec::Cur, def, SackSpec::Raw(vec![pat; len])));
        }
    }
    alphabet.push(state(AckSpec::Stale, def, SackSpec::Raw(vec![0xff; 8])));
    alphabet.push(state(AckSpec::Beyond, def, SackSpec::Raw(vec![0xff; 8])));
    for (off, len) in [(-1i32, 1usize), (0, 1), (0, MSS), (0, 16_364), (1, MSS), (3, MSS), (4, 1), (1025, MSS), (32_768, 1), (-2000, MSS)] {
        alphabet.push(Act::Deliver(Pkt::DataLen { off, len }));
    }
    alphabet.push(Act::Deliver(Pkt::Fin { off: 0, ack: AckSpec::Cur }));
    alphabet.push(Act::Deliver(Pkt::Raw { ptype: 1, seq_off: 5, ack_off: 0, wnd: 0, sack: None, payload: 0 }));
    alphabet.push(Act::Deliver(Pkt::Raw { ptype: 1, seq_off: -3, ack_off: 700, wnd: 7, sack: Some(vec![0xff; 4]), payload: 0 }));
    alphabet.push(Act::Deliver(Pkt::Reset { ack: AckSpec::Cur }));
    alphabet.push(Act::Deliver(Pkt::Reset { ack: AckSpec::Far }));
    alphabet.push(Act::Deliver(Pkt::Syn));
    alphabet.push(Act::Deliver2(Pkt::Fin { off: 0, ack: AckSpec::All }, Pkt::Fin { off: 0, ack: AckSpec::All }));
    alphabet.push(Act::Deliver2(Pkt::DataLen { off: 0, len: MSS }, Pkt::DataLen { off: 3, len: MSS }));
    alphabet.push(Act::Deliver2(Pkt::Fin { off: 0, ack: AckSpec::All }, Pkt::State { ack: AckSpec::All, wnd: def, sack: SackSpec::None }));
    // benign continuation
    alphabet.push(Act::Read(64));
    alphabet.push(Act::Write(5));
    alphabet.push(Act::Shutdown);
    alphabet.push(Act::Tick);
    Driver { name: format!("hostile-{name}"), cfg, prefix, alphabet, depth, state_cap: tier.pick(600_000, 8_000_000) }
}

pub fn hostile_all(tier: Tier, depth: usize) -> Vec<Driver> {
    let def = WndSpec::Default;
    vec![
        hostile(tier, "established", false, vec![], depth),
        hostile(tier, "incoming", true, vec![], depth),
        hostile(tier, "inflight", false, vec![Act::Write(2 * MSS)], depth),
        hostile(tier, "ooo-held", false, vec![data(1), data(2)], depth),
        hostile(
            tier,
            "recovery",
            false,
            vec![
                Act::Write(2 * MSS),
                state(AckSpec::All, def, SackSpec::None),
                Act::Write(4 * MSS),
                state(AckSpec::Cur, def, SackSpec::Raw(vec![0b111, 0, 0, 0, 0, 0, 0, 0])),
            ],
            depth,
        ),
        hostile(tier, "rto-mode", false, vec![Act::Write(2 * MSS), Act::Tick], depth),
        hostile(tier, "finwait1", false, vec![Act::Write(5), Act::Shutdown], depth),
        hostile(tier, "lastack", false, vec![Act::Deliver(Pkt::Fin { off: 0, ack: AckSpec::Cur })], depth),
    ]
}

/// Path-MTU probing: link MTU > 576 so the segment size starts at 528 and probes upwards.
pub fn mtu(tier: Tier, link_mtu: usize, path_limit: Option<usize>, emsgsize: Option<usize>, probe_retx: usize, depth: usize) -> Driver {
    let mut cfg = SoloCfg::tiny(MSS);
    cfg.link_mtu = link_mtu;
    cfg.rx_buf = 64 * 1024;
    cfg.tx_init = 64 * 1024;
    cfg.tx_max = 64 * 1024;
    cfg.probe_retx = probe_retx;
    cfg.peer_lens = vec![100];
    let def = WndSpec::Default;
    let fit = path_limit.unwrap_or(usize::MAX);
    let mut alphabet = vec![
        Act::Write(3000),
        state(AckSpec::AllFitting(fit), def, SackSpec::None),
        state(AckSpec::Plus(1), def, SackSpec::None),
        state(AckSpec::Cur, def, SackSpec::None),
        Act::Tick,
        Act::Deliver(Pkt::DataLen { off: 0, len: 100 }),
        Act::Deliver(Pkt::DataLen { off: 0, len: 560 }),
        Act::Deliver(Pkt::DataLen { off: 0, len: 2000 }),
        state(AckSpec::Cur, def, SackSpec::AllSent),
        state(AckSpec::Cur, def, SackSpec::Raw(vec![0b10, 0, 0, 0, 0, 0, 0, 0])),
        state(AckSpec::Cur, def, SackSpec::Raw(vec![0b100, 0, 0, 0, 0, 0, 0, 0])),
    ];
    if path_limit.is_none() {
        alphabet[1] = state(AckSpec::All, def, SackSpec::None);
    }
    let prefix = match emsgsize {
        Some(x) => vec![Act::Emsgsize(Some(x))],
        None => vec![],
    };
    Driver { name: format!("mtu-{link_mtu}-path{path_limit:?}-emsg{emsgsize:?}-retx{probe_retx}"), cfg, prefix, alphabet, depth, state_cap: tier.pick(200_000, 3_000_000) }
}

/// Closing on a probing path: writes that end in a probe-sized tail, more data written while a probe
/// is outstanding, both halves dropped at any point, on a path that passes or discards the probe.
pub fn mtu_close(tier: Tier, path_limit: Option<usize>, probe_retx: usize, depth: usize) -> Driver {
    let mut d = mtu(tier, 1500, path_limit, None, probe_retx, depth);
    let def = WndSpec::Default;
    let fit = path_limit.unwrap_or(usize::MAX);
    d.name = format!("mtu-close-path{path_limit:?}-retx{probe_retx}");
    d.alphabet = vec![
        Act::Write(528 + 991),
        Act::Write(528 + 900),
        Act::Write(100),
        Act::DropWriter,
        Act::DropReader,
        Act::Shutdown,
        state(AckSpec::AllFitting(fit), def, SackSpec::None),
        state(AckSpec::Plus(1), def, SackSpec::None),
        Act::Tick,
    ];
    if path_limit.is_none() {
        d.alphabet[6] = state(AckSpec::All, def, SackSpec::None);
    }
    d
}

/// A jumbo link (MTU 9000): the first probe sizes are larger than the initial congestion window.
pub fn mtu_jumbo(tier: Tier, probe_retx: usize, depth: usize) -> Driver {
    let mut d = mtu(tier, 9000, None, None, probe_retx, depth);
    d.cfg.rx_buf = 256 * 1024;
    d.cfg.tx_init = 256 * 1024;
    d.cfg.tx_max = 256 * 1024;
    d.alphabet[0] = Act::Write(30_000);
    d.alphabet[7] = Act::Deliver(Pkt::DataLen { off: 0, len: 6000 });
    d
}

/// The same over IPv6 (48 bytes of IP + UDP header, minimum MTU 1280): link MTU 1400, sizes 1212..1332.
pub fn mtu_v6(tier: Tier, path_limit: Option<usize>, probe_retx: usize, depth: usize) -> Driver {
    let mut d = mtu(tier, 1400, path_limit, None, probe_retx, depth);
    d.cfg.ipv6 = true;
    d.name = format!("mtu-v6-1400-path{path_limit:?}-retx{probe_retx}");
    d.alphabet[0] = Act::Write(8000);
    d.alphabet[6] = Act::Deliver(Pkt::DataLen { off: 0, len: 1250 });
    d
}

/// An MTU probe behind ordinary segments, with selective ACKs that name the probe only.
pub fn mtu_probe_sacked(tier: Tier, probe_retx: usize, depth: usize) -> Driver {
    let mut d = mtu(tier, 700, None, None, probe_retx, depth);
    let def = WndSpec::Default;
    d.name = format!("mtu-probe-sacked-retx{probe_retx}");
    // 528 + 591 (first probe) + 3 x 591 + 622 (second probe): the data ends exactly with a probe, so that
    // the probe stays the newest segment
    d.prefix = vec![Act::Write(3000), Act::Write(514), state(AckSpec::All, def, SackSpec::None), state(AckSpec::All, def, SackSpec::None)];
    d.alphabet = vec![
        state(AckSpec::Plus(1), def, SackSpec::None),
        state(AckSpec::Cur, def, SackSpec::None),
        state(AckSpec::All, def, SackSpec::None),
        state(AckSpec::Cur, def, SackSpec::Raw(vec![0b10, 0, 0, 0, 0, 0, 0, 0])),
        state(AckSpec::Cur, def, SackSpec::Raw(vec![0b100, 0, 0, 0, 0, 0, 0, 0])),
        state(AckSpec::Cur, def, SackSpec::AllSent),
        Act::Tick,
    ];
    d
}

/// Small and large writes on a probing path (link MTU 700: sizes 528..652), Nagle on or off: short
/// segments land on the slots where a probe is due.
pub fn nagle_mtu(tier: Tier, on: bool, probe_retx: usize, depth: usize) -> Driver {
    let mut d = mtu(tier, 700, None, None, probe_retx, depth);
    let def = WndSpec::Default;
    d.name = format!("nagle-mtu-{}-retx{probe_retx}", if on { "on" } else { "off" });
    d.cfg.nagle = on;
    d.alphabet = vec![
        Act::Write(1),
        Act::Write(100),
        Act::Write(600),
        Act::Write(1500),
        state(AckSpec::Plus(1), def, SackSpec::None),
        state(AckSpec::All, def, SackSpec::None),
        Act::Tick,
        Act::Spurious,
    ];
    d
}

/// Nagle with the write half going away: data in flight, a small write held back, then the writer (or
/// the whole stream) is dropped before the ACK arrives - the held-back bytes still wait for it.
pub fn nagle_close(tier: Tier, depth: usize) -> Driver {
    let mut d = nagle(tier, true, depth);
    d.name = "nagle-close".into();
    let w = |b: usize| WndSpec::Bytes(b as u32);
    d.alphabet = vec![
        Act::Write(MSS),
        Act::Write(4),
        Act::Write(MSS + 3),
        Act::DropWriter,
        Act::DropReader,
        Act::Shutdown,
        state(AckSpec::Plus(1), w(1 << 20), SackSpec::None),
        state(AckSpec::All, w(1 << 20), SackSpec::None),
        Act::Tick,
    ];
    d
}

/// Nagle off on a probing path with selective ACKs: a probe the peer already holds (an earlier segment
/// is missing) must not keep new small writes from being cut and sent.
pub fn nagle_mtu_sack(tier: Tier, probe_retx: usize, depth: usize) -> Driver {
    let mut d = nagle_mtu(tier, false, probe_retx, depth);
    let def = WndSpec::Default;
    d.name = format!("nagle-mtu-off-sack-retx{probe_retx}");
    d.alphabet = vec![
        Act::Write(10),
        Act::Write(600),
        Act::Write(1500),
        state(AckSpec::Plus(1), def, SackSpec::None),
        state(AckSpec::All, def, SackSpec::None),
        state(AckSpec::Cur, def, SackSpec::FirstN(1)),
        state(AckSpec::Cur, def, SackSpec::AllSent),
        Act::Tick,
    ];
    d
}

/// The same with traffic in both directions: the peer's own (larger) payloads raise the proven size
/// while the probe is outstanding, and the application adds a short remainder - a re-cut of the
/// probe's sequence number then comes out in another size.
pub fn mtu_probe_sacked_bidir(tier: Tier, probe_retx: usize, depth: usize) -> Driver {
    let mut d = mtu_probe_sacked(tier, probe_retx, depth);
    d.name = format!("mtu-probe-sacked-bidir-retx{probe_retx}");
    d.alphabet.push(Act::Deliver(Pkt::DataLen { off: 0, len: 640 }));
    d.alphabet.push(Act::Write(50));
    d
}

pub fn run_and_report(ctx: &Ctx, d: &Driver, out: &mut Outcome) {
    let r = run_driver(ctx, d);
    report(d, &r, out);
}

/// every driver by name (debugging aid: `utpmc solo-debug <driver> '[0,2,8]'`)
pub fn all_drivers(tier: Tier) -> Vec<Driver> {
    let mut v = vec![rx(tier, 2, vec![MSS], 6), rx(tier, 4, vec![MSS, 1], 6), rx(tier, 4, vec![1, MSS], 6), rx(tier, 3, vec![MSS - 1], 6), rx_halfclosed(tier, 6), rx_rude(tier, 6)];
    v.push(rx_grown_mss(tier, 6));
    v.push(rx_empty_read(tier, 5));
    v.push(rx_vectored(tier, 5));
    v.push(rx_peer_isn(tier, 0, 5));
    v.push(rx_burst_fin(tier, 2, 5));
    v.push(rx_burst_fin(tier, 3, 5));
    v.push(rx_sub_mss(tier, 5));
    v.push(rx_growing_mss(tier, 6));
    v.push(rx_reader_gone(tier, 6));
    v.push(rx_probe_then_fin(tier, 6));
    v.push(rx_after_fin(tier, false, 5));
    v.push(rx_after_fin(tier, true, 5));
    v.push(tx_window(tier, true, 10, 6));
    v.push(tx_window(tier, false, 10, 6));
    v.push(rtx(tier, 2, false, 7));
    v.push(rtx(tier, 5, true, 7));
    v.push(rtx_after_recovery_rto(tier, 7));
    v.push(rtx_piggyback(tier, 6));
    v.push(sack_keepalive(tier, 6));
    v.push(rtx_after_fast_recovery(tier, 6));
    v.push(rtx_after_long_recovery(tier, 5));
    v.push(nagle_recovery(tier, 6));
    v.push(tx_slowstart(tier, 6));
    v.push(tx_window_mtu(tier, 6));
    v.push(tx_slowstart_mtu(tier, 6));
    v.extend(fsm_all(tier, 5));
    v.extend(fsm_batch_all(tier, 4));
    v.push(fin_tail_recovery(tier, false, 6));
    v.push(fin_tail_recovery(tier, true, 6));
    v.push(nagle(tier, true, 6));
    v.push(nagle(tier, false, 6));
    for (i, m) in [(8usize, 8usize), (8, 32), (32, 8)] {
        v.push(tx_flow(tier, i, m, 6));
    }
    v.push(close(tier, 6));
    v.push(close_refused(tier, 6));
    v.push(rtx_long_backoff(tier, 14));
    v.push(rtx_refused(tier, 1, 6));
    v.push(rtx_refused(tier, 2, 6));
    v.push(tx_grow(tier, 5));
    v.push(tx_empty_write(tier, 5));
    v.extend(hostile_all(tier, 2));
    v.push(mtu(tier, 700, Some(600), None, 0, 6));
    v.push(mtu(tier, 700, None, None, 1, 6));
    v.push(mtu_probe_sacked(tier, 0, 5));
    v.push(mtu_probe_sacked(tier, 1, 5));
    v.push(mtu_probe_sacked_bidir(tier, 0, 5));
    v.push(mtu_v6(tier, Some(1300), 1, 5));
    v.push(mtu_jumbo(tier, 1, 5));
    v.push(mtu_close(tier, None, 1, 5));
    v.push(mtu_close(tier, Some(1000), 1, 5));
    v.push(mtu_close(tier, Some(1000), 0, 5));
    v.push(nagle_mtu(tier, false, 1, 5));
    v.push(nagle_mtu(tier, true, 1, 5));
    v.push(nagle_close(tier, 5));
    v.push(nagle_mtu_sack(tier, 1, 5));
    v
}
