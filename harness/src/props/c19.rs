//! C19 send-side buffering bound and back-pressure (solo + exhaust).
use super::solo_drivers::*;
use crate::common::*;

pub fn run(ctx: &Ctx) -> Outcome {
    let mut out = Outcome::default();
    let d = ctx.tier.pick(7, 8);
    for (i, m) in [(8usize, 8usize), (8, 32), (32, 8)] {
        run_and_report(ctx, &tx_flow(ctx.tier, i, m, d), &mut out);
    }
    run_and_report(ctx, &tx_grow(ctx.tier, ctx.tier.pick(6, 7)), &mut out);
    run_and_report(ctx, &tx_empty_write(ctx.tier, ctx.tier.pick(7, 8)), &mut out);
    // the write half and the connection on different threads (a multi-threaded runtime)
    {
        use crate::solo::threads::*;
        let tc = ThreadsCfg { base_depth: ctx.tier.pick(2, 3), preemption_bound: ctx.tier.pick(Some(2), Some(3)), max_runs_per_case: ctx.tier.pick(3_000, 200_000), with_suffix: false, triples: false, doubles: true, budget_share: 0.3 };
        // (quick: two consecutive writes only on the drivers whose ring can grow, from shallower states)
        let tc0 = ThreadsCfg { doubles: ctx.tier == Tier::Thorough, budget_share: 0.5, ..tc };
        explore_threads(ctx, &tx_flow(ctx.tier, 8, 8, 0), &tc0, &mut out);
        let tc1 = ThreadsCfg { base_depth: ctx.tier.pick(1, 2), budget_share: 0.6, ..tc };
        explore_threads(ctx, &tx_flow(ctx.tier, 8, 32, 0), &ThreadsCfg { base_depth: ctx.tier.pick(1, 3), budget_share: 0.5, ..tc }, &mut out);
        explore_threads(ctx, &tx_grow(ctx.tier, 0), &tc1, &mut out);
    }
    out.merge(crate::exhaust::ring::run(ctx));
    out.rule = "C19: explicit-state BFS over write sizes x ACK schedules x (initial, max) buffer settings on one real connection; exhaustive op sequences on the real UserTx ring against a VecDeque".into();
    out
}
