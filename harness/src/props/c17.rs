//! C17 handshake and teardown on the wire (solo + the duo FIN-emission monitor).
use super::solo_drivers::*;
use crate::common::*;
use crate::duo::{explore::*, lib, oracles, scenario::*};

fn judge(scn: &Scenario, _p: &Plan, l: &RunLog) -> Vec<oracles::Finding> {
    oracles::fin_emitted(scn, l)
}

pub fn run(ctx: &Ctx) -> Outcome {
    let mut out = Outcome::default();
    let d = ctx.tier.pick(6, 8);
    for drv in fsm_all(ctx.tier, d) {
        run_and_report(ctx, &drv, &mut out);
    }
    for drv in fsm_batch_all(ctx.tier, ctx.tier.pick(6, 7)) {
        run_and_report(ctx, &drv, &mut out);
    }
    for la in [false, true] {
        run_and_report(ctx, &fin_tail_recovery(ctx.tier, la, ctx.tier.pick(7, 8)), &mut out);
    }
    // closing on a probing path (a probe-sized tail, data written behind an outstanding probe)
    for (path, r) in [(None, 1usize), (Some(1000usize), 1), (Some(1000), 0)] {
        run_and_report(ctx, &mtu_close(ctx.tier, path, r, ctx.tier.pick(7, 8)), &mut out);
    }
    // FIN emission under loss (found F14): every plan of <= 2 deviations on the core scenarios
    let always = |_: &RunLog, _: &WireEventLite| true;
    let mut scns = lib::core();
    scns.push(lib::early_shutdown());
    scns.push(lib::mtu_drop_close(700, Some(600), 6_000));
    for scn in scns.iter() {
        let cfg = ExploreCfg { max_dev: ctx.tier.pick(2, 3), min_k: 2, fates: fates_basic(), eligible: &always, judge: &judge, max_runs: ctx.tier.pick(60_000, 3_000_000) };
        let r = explore(ctx, scn, &cfg);
        let mut p = Part::fe(&format!("duo-fin:{}", scn.name));
        p.kind = "model_checking";
        p.states = r.distinct_traces;
        p.transitions = r.runs;
        p.evaluations = r.runs;
        p.distinct_nontrivial = r.distinct_traces;
        p.distinct_outcomes = r.outcome_classes.len() as u64;
        p.bound = format!("all fault plans with <= {} deviations; per level {:?}", r.completed_bound, r.per_level);
        if let Some(c) = &r.capped {
            p.caps_hit.push(c.clone());
            p.exhaustive = false;
        }
        out.violations.extend(findings_to_violations(scn, &r.findings, &judge));
        out.parts.push(p);
    }
    out.rule = "C17: explicit-state BFS from every handshake/teardown state over peer packets x application actions x timer expiries (wire rules R1-R4 as monitors); plus deviation-bounded fault plans over two real sockets for 'the FIN is emitted once everything is acknowledged'".into();
    out
}
