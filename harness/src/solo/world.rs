//! The closed system: one Endpoint + its stream halves + recording transport + scripted peer and
//! application. A state is reached by executing a history of actions on a fresh World.

use std::{
    future::Future,
    net::{IpAddr, Ipv4Addr, Ipv6Addr, SocketAddr},
    num::NonZeroUsize,
    pin::Pin,
    sync::{
        atomic::{AtomicBool, Ordering},
        Arc,
    },
    task::{Context, Poll, Wake, Waker},
    time::Duration,
};

use librqbit_dualstack_sockets::PollSendToVectored;
use librqbit_utp::{
    raw::UtpHeader,
    verif::{Endpoint, EndpointKind, Observation, UtpMessage},
    SocketOpts, Transport, UtpStreamReadHalf, UtpStreamWriteHalf,
};
use parking_lot::Mutex;
use serde::{Deserialize, Serialize};
use tokio::io::{AsyncRead, AsyncWrite, ReadBuf};

use crate::duo::scenario::coded;
use crate::duo::sim::VEnv;
use crate::exhaust::wire::{ref_parse_message, RefHeader};

// ------------------------------------------------------------------------------------------------
// wakers
// ------------------------------------------------------------------------------------------------

#[derive(Default)]
pub struct Flag {
    fired: AtomicBool,
    main: Mutex<Option<Waker>>,
    count: std::sync::atomic::AtomicUsize,
}

impl Flag {
    pub fn take(&self) -> bool {
        self.fired.swap(false, Ordering::SeqCst)
    }
    pub fn is_set(&self) -> bool {
        self.fired.load(Ordering::SeqCst)
    }
    pub fn wakes(&self) -> usize {
        self.count.load(Ordering::SeqCst)
    }
}

impl Wake for Flag {
    fn wake(self: Arc<Self>) {
        self.wake_by_ref()
    }
    fn wake_by_ref(self: &Arc<Self>) {
        self.fired.store(true, Ordering::SeqCst);
        self.count.fetch_add(1, Ordering::SeqCst);
        if let Some(w) = self.main.lock().take() {
            w.wake();
        }
    }
}

/// The one place where a Flag becomes a Waker: `Waker::will_wake` compares vtable addresses, and a
/// generic conversion instantiated in several codegen units may get several vtables.
#[inline(never)]
pub fn mk_waker(f: &Arc<Flag>) -> Waker {
    f.clone().into()
}

struct FlagFuture<'a>(&'a Arc<Flag>);
impl Future for FlagFuture<'_> {
    type Output = ();
    fn poll(self: Pin<&mut Self>, cx: &mut Context<'_>) -> Poll<()> {
        if self.0.is_set() {
            return Poll::Ready(());
        }
        *self.0.main.lock() = Some(cx.waker().clone());
        if self.0.is_set() {
            return Poll::Ready(());
        }
        Poll::Pending
    }
}

// ------------------------------------------------------------------------------------------------
// recording transport
// ------------------------------------------------------------------------------------------------

#[derive(Default)]
pub struct TransportState {
    pub sent: Vec<Vec<u8>>,
    pub rejected: Vec<usize>,
    pub emsgsize_above: Option<usize>,
    pub pending_once: bool,
    pub pending_waker: Option<Waker>,
    /// > 0: the transport refuses every datagram; counts down at the end of each step and wakes the
    /// waiter when it reaches 0 (a send buffer that stays full while another datagram arrives)
    pub pending_hold_steps: u8,
}

#[derive(Clone)]
pub struct RecTransport {
    pub st: Arc<Mutex<TransportState>>,
    pub addr: SocketAddr,
}

impl RecTransport {
    fn do_send(&self, cx: Option<&mut Context<'_>>, buf: &[u8]) -> Poll<std::io::Result<usize>> {
        let mut g = self.st.lock();
        if g.pending_hold_steps > 0 {
            if let Some(cx) = cx {
                g.pending_waker = Some(cx.waker().clone());
            }
            return Poll::Pending;
        }
        if g.pending_once {
            g.pending_once = false;
            if let Some(cx) = cx {
                g.pending_waker = Some(cx.waker().clone());
            }
            return Poll::Pending;
        }
        if let Some(l) = g.emsgsize_above {
            if buf.len() > l {
                g.rejected.push(buf.len());
                return Poll::Ready(Err(std::io::Error::from_raw_os_error(libc::EMSGSIZE)));
            }
        }
        g.sent.push(buf.to_vec());
        Poll::Ready(Ok(buf.len()))
    }
}

impl Transport for RecTransport {
    fn recv_from<'a>(&'a self, _buf: &'a mut [u8]) -> impl Future<Output = std::io::Result<(usize, SocketAddr)>> + Send + Sync + 'a {
        std::future::pending()
    }
    async fn send_to<'a>(&'a self, buf: &'a [u8], _target: SocketAddr) -> std::io::Result<usize> {
        match self.do_send(None, buf) {
            Poll::Ready(r) => r,
            Poll::Pending => Ok(buf.len()),
        }
    }
    fn poll_send_to(&self, cx: &mut Context<'_>, buf: &[u8], _target: SocketAddr) -> Poll<std::io::Result<usize>> {
        self.do_send(Some(cx), buf)
    }
    fn bind_addr(&self) -> SocketAddr {
        self.addr
    }
}

impl PollSendToVectored for RecTransport {
    fn poll_send_to_vectored(&self, cx: &mut Context<'_>, bufs: &[std::io::IoSlice<'_>], _target: SocketAddr) -> Poll<std::io::Result<usize>> {
        let mut buf = Vec::new();
        bufs.iter().for_each(|b| buf.extend_from_slice(b.as_ref()));
        self.do_send(Some(cx), &buf)
    }
}

// ------------------------------------------------------------------------------------------------
// configuration and actions
// ------------------------------------------------------------------------------------------------

#[derive(Clone, Debug, Serialize, Deserialize, PartialEq)]
pub struct SoloCfg {
    pub incoming: bool,
    pub ipv6: bool,
    pub link_mtu: usize,
    pub rx_buf: usize,
    pub tx_init: usize,
    pub tx_max: usize,
    pub nagle: bool,
    pub max_retx: usize,
    pub inactivity_ms: u64,
    pub wait_last_ack: bool,
    pub probe_retx: usize,
    pub our_isn: u16,
    pub peer_isn: u16,
    pub conn_id: u16,
    /// window the peer advertises by default (and in its SYN-ACK)
    pub peer_wnd: u32,
    pub rtt_ms: u64,
    /// payload length of the peer's i-th data packet = peer_lens[i % len]
    pub peer_lens: Vec<usize>,
    /// the scripted peer never has more bytes outstanding than the window the endpoint last advertised
    #[serde(default)]
    pub peer_respects_window: bool,
    /// the scripted peer may selectively acknowledge sequence numbers the endpoint never sent
    #[serde(default)]
    pub hostile_sack: bool,
    /// `CongestionConfig { tracing: true }`: the controller runs behind the tracing wrapper
    #[serde(default)]
    pub cc_tracing: bool,
}

impl SoloCfg {
    pub fn tiny(mss: usize) -> Self {
        SoloCfg {
            incoming: false,
            ipv6: false,
            link_mtu: 48 + mss,
            rx_buf: 4 * mss,
            tx_init: 4 * mss,
            tx_max: 8 * mss,
            nagle: true,
            max_retx: 5,
            inactivity_ms: 10_000,
            wait_last_ack: true,
            probe_retx: 1,
            our_isn: 65_530,
            peer_isn: 65_533,
            conn_id: 500,
            peer_wnd: 1 << 20,
            rtt_ms: 20,
            peer_lens: vec![mss],
            peer_respects_window: false,
            hostile_sack: false,
            cc_tracing: false,
        }
    }
    pub fn opts(&self) -> SocketOpts {
        SocketOpts {
            link_mtu: NonZeroUsize::new(self.link_mtu),
            vsock_rx_bufsize_bytes: NonZeroUsize::new(self.rx_buf),
            vsock_tx_bufsize_bytes_initial: NonZeroUsize::new(self.tx_init),
            vsock_tx_bufsize_bytes_max: NonZeroUsize::new(self.tx_max),
            disable_nagle: !self.nagle,
            congestion: librqbit_utp::CongestionConfig { tracing: self.cc_tracing, ..Default::default() },
            parent_span: None,
            cancellation_token: Default::default(),
            max_retransmissions: NonZeroUsize::new(self.max_retx),
            remote_inactivity_timeout: Some(Duration::from_millis(self.inactivity_ms)),
            max_live_vsocks: None,
            dont_wait_for_lastack: !self.wait_last_ack,
            mtu_probe_max_retransmissions: Some(self.probe_retx),
        }
    }
    pub fn remote(&self) -> SocketAddr {
        if self.ipv6 {
            SocketAddr::new(IpAddr::V6(Ipv6Addr::new(0xfd00, 0, 0, 0, 0, 0, 0, 2)), 2002)
        } else {
            SocketAddr::new(IpAddr::V4(Ipv4Addr::new(10, 0, 0, 2)), 2002)
        }
    }
}

/// Which cumulative acknowledgement a scripted peer packet carries, relative to the observed wire.
#[derive(Clone, Copy, Debug, Serialize, Deserialize, PartialEq, Eq, Hash)]
pub enum AckSpec {
    /// the highest cumulative ACK the peer has given so far (a duplicate when nothing is new)
    Cur,
    /// two below the current one (stale)
    Stale,
    /// current + n, capped at the highest sequence number the endpoint has sent
    Plus(u16),
    /// everything the endpoint has sent so far (incl. its FIN)
    All,
    /// one beyond the highest sequence number sent
    Beyond,
    /// far beyond (+1000)
    Far,
    /// +32768
    Half,
    /// cumulative ACK up to (excluding) the first unacknowledged data segment whose payload exceeds
    /// this many bytes: what a well-behaved peer behind a size-blackholing path acknowledges
    AllFitting(usize),
}

#[derive(Clone, Copy, Debug, Serialize, Deserialize, PartialEq, Eq, Hash)]
pub enum WndSpec {
    /// the configured default peer window
    Default,
    Bytes(u32),
}

/// Selective-ACK extension of a scripted packet. Bit i refers to sequence number ack+2+i.
#[derive(Clone, Debug, Serialize, Deserialize, PartialEq, Eq, Hash)]
pub enum SackSpec {
    None,
    /// raw mask bytes, as is (any length)
    Raw(Vec<u8>),
    /// SACK everything the endpoint has sent above ack+1 (8 bytes)
    AllSent,
    /// SACK the n sequence numbers ack+2 .. ack+1+n (8 bytes)
    FirstN(u8),
}

#[derive(Clone, Debug, Serialize, Deserialize, PartialEq, Eq, Hash)]
pub enum Pkt {
    /// the peer's data packet with index E+off, where E = index of the first packet the endpoint has
    /// not yet received in order (so 0 = in order, -1 = duplicate of the last one, 1 = leaves a gap)
    Data { off: i32, ack: AckSpec, wnd: WndSpec },
    /// ST_DATA with an explicit payload length at seq offset `off` (hostile / oversize payloads)
    DataLen { off: i32, len: usize },
    State { ack: AckSpec, wnd: WndSpec, sack: SackSpec },
    /// ST_FIN with seq = (in-order position) + off
    Fin { off: i32, ack: AckSpec },
    Reset { ack: AckSpec },
    Syn,
    /// fully explicit header fields relative to the observed wire: seq = expected + seq_off, ack = highest sent + ack_off
    Raw { ptype: u8, seq_off: i32, ack_off: i32, wnd: u32, sack: Option<Vec<u8>>, payload: usize },
}

#[derive(Clone, Debug, Serialize, Deserialize, PartialEq, Eq, Hash)]
pub enum Act {
    /// deliver one datagram and let the connection process it
    Deliver(Pkt),
    /// two datagrams queue up before the connection runs
    Deliver2(Pkt, Pkt),
    /// three datagrams handed to the connection in one poll
    Deliver3(Pkt, Pkt, Pkt),
    Write(usize),
    Read(usize),
    Flush,
    Shutdown,
    DropReader,
    DropWriter,
    /// poll the connection although nothing woke it (what the 5 s tracing tick does)
    Spurious,
    /// advance the clock to the next instant at which the connection's timer wakes it (<= 120 s)
    Tick,
    /// advance the clock by at most this many ms, stopping at the connection's next timer
    Wait(u64),
    /// one vectored read into two buffers of these sizes (`poll_read_vectored`)
    ReadV(usize, usize),
    /// let exactly this many ms pass, polling the connection whenever its timer wakes it
    /// (linear scenarios only: several polls in one step)
    Sleep(u64),
    /// the local link starts / stops rejecting datagrams above this size with EMSGSIZE
    Emsgsize(Option<usize>),
    /// the transport refuses every datagram until the end of the next step
    TransportPendingHold,
    /// the next send attempt finds the transport not ready
    TransportPendingOnce,
    /// the parked write / flush / shutdown is polled again from another task (a different waker):
    /// the latest waker is the one that must be woken
    RepollWriterOtherTask,
    /// same for the parked read
    RepollReaderOtherTask,
    /// The given actions run on separate real threads (at most one that polls the connection - a
    /// Deliver / Spurious / Tick -, one on the write half, one on the read half), interleaved at the
    /// granularity of the critical sections of the locks they share, in the order `sched` dictates
    /// (see solo::sched). Afterwards everything woken runs to quiescence as after any other action.
    Par { ops: Vec<Act>, sched: Vec<u8> },
}

#[derive(Clone, Debug, PartialEq)]
pub enum AppRes {
    Ok(usize),
    Pending,
    Err(String),
    Eof,
}

/// One datagram the endpoint emitted.
#[derive(Clone, Debug)]
pub struct Emit {
    pub t_us: u64,
    pub hdr: RefHeader,
    pub payload: Vec<u8>,
    pub len: usize,
    pub step: usize,
}

/// What one transition did (fed to the monitors).
#[derive(Clone, Debug, Default)]
pub struct StepRecord {
    pub step: usize,
    pub t_us: u64,
    pub emitted: Vec<Emit>,
    pub rejected: Vec<usize>,
    /// (who, result): who in {"write","read","flush","shutdown"}
    pub app: Vec<(&'static str, AppRes)>,
    pub d_polls: usize,
    pub d_result: Option<Result<(), String>>,
    pub d_woken_before: bool,
    /// packets the scripted peer sent in this step: (header bytes parsed, payload len, peer data index if any)
    pub peer_sent: Vec<(RefHeader, usize, Option<usize>)>,
    pub obs_before: Option<Observation>,
    pub obs_after: Option<Observation>,
    pub unparseable_emit: bool,
    pub panicked: Option<String>,
    pub livelock: bool,
    /// the writer / reader was parked before the step and its waker fired during it
    pub w_woken: bool,
    pub r_woken: bool,
    pub clock_advanced_us: u64,
    /// decisions the thread scheduler took in a `Par` step
    pub sched: Option<super::sched::SchedOutcome>,
}

#[derive(Clone, Copy, Debug, PartialEq, Eq)]
pub enum Parked {
    No,
    Write(usize),
    Read(usize),
    Flush,
    Shutdown,
}

pub struct World {
    pub cfg: SoloCfg,
    pub ep: Endpoint<RecTransport, VEnv>,
    pub tr: Arc<Mutex<TransportState>>,
    pub reader: Option<UtpStreamReadHalf>,
    pub writer: Option<UtpStreamWriteHalf>,
    pub d: Arc<Flag>,
    pub w: Arc<Flag>,
    pub r: Arc<Flag>,
    pub t0: tokio::time::Instant,
    // application bookkeeping
    pub written: u64,
    pub read: u64,
    pub read_ok: bool,
    pub w_parked: Parked,
    pub r_parked: Parked,
    pub shutdown_called: bool,
    pub reader_eof: bool,
    pub reader_err: Option<String>,
    pub writer_err: Option<String>,
    // scripted peer bookkeeping (all derived from what was put on / seen on the wire)
    /// number of the peer's data packets the endpoint has received in order (by the harness's model)
    pub peer_sent: std::collections::BTreeSet<usize>,
    pub peer_fin_idx: Option<usize>,
    /// the scripted peer has sent a data packet beyond the window the endpoint last advertised to it
    pub peer_exceeded_window: bool,
    /// highest cumulative ack_nr the peer has sent
    pub peer_cum_ack: u16,
    /// first / highest sequence number the endpoint has put on the wire (data or FIN)
    pub ep_first_seq: Option<u16>,
    pub ep_hi_seq: Option<u16>,
    pub ep_last_ack_nr: u16,
    pub ep_last_wnd: u32,
    /// payload length of every data sequence number the endpoint has put on the wire (latest transmission)
    pub ep_seg_len: std::collections::BTreeMap<u16, usize>,
    pub step: usize,
    pub done: Option<Result<(), String>>,
    pub trace: Vec<StepRecord>,
}

pub const SALT_EP: u8 = 0x21; // bytes the endpoint's application writes
pub const SALT_PEER: u8 = 0x6b; // bytes the scripted peer sends

fn seq_add(a: u16, b: i64) -> u16 {
    ((a as i64 + b).rem_euclid(65536)) as u16
}

impl World {
    pub fn new(cfg: &SoloCfg) -> World {
        let tr = Arc::new(Mutex::new(TransportState::default()));
        let transport = RecTransport { st: tr.clone(), addr: SocketAddr::new(IpAddr::V4(Ipv4Addr::new(10, 0, 0, 1)), 1001) };
        let env = VEnv::new(&[cfg.conn_id, cfg.our_isn]);
        let t0 = tokio::time::Instant::now();
        let (ep, stream) = if cfg.incoming {
            let syn = UtpHeader {
                htype: librqbit_utp::raw::Type::ST_SYN,
                connection_id: cfg.conn_id.into(),
                seq_nr: cfg.peer_isn.into(),
                ..Default::default()
            };
            Endpoint::new(transport, env, cfg.opts(), cfg.remote(), EndpointKind::Incoming { next_seq_nr: cfg.our_isn, remote_syn: &syn }).expect("endpoint")
        } else {
            // the peer's SYN-ACK: acknowledges our SYN (seq = our_isn), carries its own seq_nr
            let synack = UtpHeader {
                htype: librqbit_utp::raw::Type::ST_STATE,
                connection_id: cfg.conn_id.into(),
                seq_nr: cfg.peer_isn.into(),
                ack_nr: cfg.our_isn.into(),
                wnd_size: cfg.peer_wnd,
                ..Default::default()
            };
            Endpoint::new(transport, env, cfg.opts(), cfg.remote(), EndpointKind::Outgoing { remote_ack: &synack, rtt: Duration::from_millis(cfg.rtt_ms) }).expect("endpoint")
        };
        let (reader, writer) = stream.split();
        World {
            cfg: cfg.clone(),
            ep,
            tr,
            reader: Some(reader),
            writer: Some(writer),
            d: Arc::new(Flag::default()),
            w: Arc::new(Flag::default()),
            r: Arc::new(Flag::default()),
            t0,
            written: 0,
            read: 0,
            read_ok: true,
            w_parked: Parked::No,
            r_parked: Parked::No,
            shutdown_called: false,
            reader_eof: false,
            reader_err: None,
            writer_err: None,
            peer_sent: Default::default(),
            peer_fin_idx: None,
            peer_exceeded_window: false,
            peer_cum_ack: if cfg.incoming { cfg.our_isn.wrapping_sub(1) } else { cfg.our_isn },
            ep_first_seq: None,
            ep_hi_seq: None,
            ep_last_ack_nr: if cfg.incoming { cfg.peer_isn } else { cfg.peer_isn.wrapping_sub(1) },
            ep_last_wnd: cfg.rx_buf as u32,
            ep_seg_len: Default::default(),
            step: 0,
            done: None,
            trace: vec![],
        }
    }

    pub fn now_us(&self) -> u64 {
        (tokio::time::Instant::now() - self.t0).as_micros() as u64
    }

    /// The poll a runtime gives a freshly spawned task (an accepted connection sends its SYN-ACK here).
    pub fn spawn_poll(&mut self) {
        let mut rec = StepRecord { step: self.step, ..Default::default() };
        rec.obs_before = self.ep.observe(tokio::time::Instant::now().into_std());
        let sent_before = self.tr.lock().sent.len();
        self.poll_d(&mut rec);
        self.quiesce(&mut rec);
        self.finish_step(rec, sent_before);
    }

    // ---- scripted peer: sequence space ----
    /// sequence number of the peer's data packet with index i
    pub fn peer_seq_of(&self, i: i64) -> u16 {
        // outgoing: the SYN-ACK carried peer_isn and the first data packet uses peer_isn as well
        // (StreamArgs::new_outgoing pretends peer_isn-1 was consumed); incoming: the SYN consumed peer_isn.
        let first = if self.cfg.incoming { self.cfg.peer_isn.wrapping_add(1) } else { self.cfg.peer_isn };
        seq_add(first, i)
    }
    pub fn peer_len_of(&self, i: usize) -> usize {
        self.cfg.peer_lens[i % self.cfg.peer_lens.len()]
    }
    pub fn peer_off_of(&self, i: usize) -> u64 {
        (0..i).map(|k| self.peer_len_of(k) as u64).sum()
    }
    /// index of the first peer data packet not yet delivered in order
    pub fn peer_in_order(&self) -> usize {
        let mut i = 0;
        while self.peer_sent.contains(&i) {
            i += 1;
        }
        i
    }
    /// index of the last peer data packet the endpoint has cumulatively acknowledged on the wire (-1: none)
    pub fn ep_ack_index(&self) -> i64 {
        (self.ep_last_ack_nr.wrapping_sub(self.peer_seq_of(0)) as i16) as i64
    }
    /// the connection id the endpoint receives on / sends with
    pub fn recv_conn_id(&self) -> u16 {
        if self.cfg.incoming {
            self.cfg.conn_id.wrapping_add(1)
        } else {
            self.cfg.conn_id
        }
    }
    pub fn send_conn_id(&self) -> u16 {
        if self.cfg.incoming {
            self.cfg.conn_id
        } else {
            self.cfg.conn_id.wrapping_add(1)
        }
    }

    fn resolve_ack(&self, a: AckSpec) -> u16 {
        let hi = self.ep_hi_seq.unwrap_or(self.peer_cum_ack);
        match a {
            AckSpec::Cur => self.peer_cum_ack,
            AckSpec::Stale => self.peer_cum_ack.wrapping_sub(2),
            AckSpec::Plus(n) => {
                let dist = hi.wrapping_sub(self.peer_cum_ack) as i16;
                if dist <= 0 {
                    self.peer_cum_ack
                } else {
                    self.peer_cum_ack.wrapping_add(n.min(dist as u16))
                }
            }
            AckSpec::All => {
                let dist = hi.wrapping_sub(self.peer_cum_ack) as i16;
                if dist <= 0 {
                    self.peer_cum_ack
                } else {
                    hi
                }
            }
            AckSpec::AllFitting(limit) => {
                let mut a = self.peer_cum_ack;
                loop {
                    let next = a.wrapping_add(1);
                    match self.ep_seg_len.get(&next) {
                        Some(l) if *l <= limit => a = next,
                        _ => break,
                    }
                }
                // the FIN (no payload) fits any path
                if let Some(h) = self.ep_hi_seq {
                    if a.wrapping_add(1) == h && !self.ep_seg_len.contains_key(&h) {
                        a = h;
                    }
                }
                a
            }
            AckSpec::Beyond => hi.wrapping_add(1),
            AckSpec::Far => hi.wrapping_add(1000),
            AckSpec::Half => hi.wrapping_add(32768),
        }
    }
    fn resolve_wnd(&self, w: WndSpec) -> u32 {
        match w {
            WndSpec::Default => self.cfg.peer_wnd,
            WndSpec::Bytes(b) => b,
        }
    }

    /// Builds the datagram bytes for a scripted packet; None if it does not apply in this state.
    fn build(&mut self, p: &Pkt) -> Option<(Vec<u8>, Option<usize>)> {
        let mut b = vec![0u8; 20];
        let mut peer_idx = None;
        let (ptype, seq, ack, wnd, sack, payload): (u8, u16, u16, u32, Option<Vec<u8>>, Vec<u8>) = match p {
            Pkt::Data { off, ack, wnd } => {
                let e = self.peer_in_order() as i64;
                let i = e + *off as i64;
                if i < 0 {
                    return None;
                }
                if let Some(f) = self.peer_fin_idx {
                    if i as usize >= f {
                        return None; // no data after the peer's own FIN position
                    }
                }
                let i = i as usize;
                let len = self.peer_len_of(i);
                if self.cfg.peer_respects_window && !self.peer_sent.contains(&i) {
                    // bytes sent and not yet cumulatively acknowledged by the endpoint (per the wire)
                    // a window-respecting sender never sends beyond (acknowledged bytes + advertised window)
                    // in sequence space (per the last packet of the endpoint it has seen on the wire)
                    let acked_idx = self.ep_ack_index();
                    let acked_bytes = if acked_idx >= 0 { self.peer_off_of((acked_idx + 1) as usize) } else { 0 };
                    if self.peer_off_of(i) + len as u64 > acked_bytes + self.ep_last_wnd as u64 {
                        return None;
                    }
                }
                let o = self.peer_off_of(i);
                if !self.peer_sent.contains(&i) {
                    let acked_idx = self.ep_ack_index();
                    let acked_bytes = if acked_idx >= 0 { self.peer_off_of((acked_idx + 1) as usize) } else { 0 };
                    if o + len as u64 > acked_bytes + self.ep_last_wnd as u64 {
                        self.peer_exceeded_window = true;
                    }
                }
                let pl: Vec<u8> = (0..len as u64).map(|k| coded(o + k, SALT_PEER)).collect();
                peer_idx = Some(i);
                (0, self.peer_seq_of(i as i64), self.resolve_ack(*ack), self.resolve_wnd(*wnd), None, pl)
            }
            Pkt::DataLen { off, len } => {
                let e = self.peer_in_order() as i64;
                let i = e + *off as i64;
                let pl: Vec<u8> = (0..*len as u64).map(|k| coded(k, 0x99)).collect();
                (0, self.peer_seq_of(i), self.peer_cum_ack, self.cfg.peer_wnd, None, pl)
            }
            Pkt::State { ack, wnd, sack } => {
                let a = self.resolve_ack(*ack);
                let s = match sack {
                    SackSpec::None => None,
                    SackSpec::Raw(v) => Some(v.clone()),
                    SackSpec::FirstN(n) => {
                        let mut m = vec![0u8; 8];
                        for i in 0..(*n as usize).min(64) {
                            m[i / 8] |= 1 << (i % 8);
                        }
                        Some(m)
                    }
                    SackSpec::AllSent => {
                        let hi = self.ep_hi_seq.unwrap_or(a);
                        let n = (hi.wrapping_sub(a) as i16 as i32 - 1).clamp(0, 64) as usize;
                        if n == 0 {
                            return None;
                        }
                        let mut m = vec![0u8; 8];
                        for i in 0..n {
                            m[i / 8] |= 1 << (i % 8);
                        }
                        Some(m)
                    }
                };
                // an honest peer only selectively acknowledges what was really sent (and lies above ack+1)
                let s = match s {
                    Some(mut m) if !self.cfg.hostile_sack => {
                        let hi = self.ep_hi_seq.unwrap_or(a);
                        let mut any = false;
                        for i in 0..m.len() * 8 {
                            if m[i / 8] & (1 << (i % 8)) != 0 {
                                let sq = a.wrapping_add(2).wrapping_add(i as u16);
                                let sent = (hi.wrapping_sub(sq) as i16) >= 0 && self.ep_seg_len.contains_key(&sq);
                                if !sent {
                                    m[i / 8] &= !(1 << (i % 8));
                                } else {
                                    any = true;
                                }
                            }
                        }
                        if !any {
                            return None;
                        }
                        Some(m)
                    }
                    other => other,
                };
                let e = self.peer_in_order() as i64;
                (2, self.peer_seq_of(e), a, self.resolve_wnd(*wnd), s, vec![])
            }
            Pkt::Fin { off, ack } => {
                let e = match self.peer_fin_idx {
                    Some(f) => f as i64,
                    None => self.peer_in_order() as i64 + *off as i64,
                };
                if e < 0 {
                    return None;
                }
                if self.peer_fin_idx.is_none() {
                    // the FIN takes the sequence position of data packet index e: nothing beyond it may be sent later
                    if self.peer_sent.iter().any(|d| *d >= e as usize) {
                        return None;
                    }
                    self.peer_fin_idx = Some(e as usize);
                }
                (1, self.peer_seq_of(e), self.resolve_ack(*ack), self.cfg.peer_wnd, None, vec![])
            }
            Pkt::Reset { ack } => (3, self.peer_seq_of(self.peer_in_order() as i64), self.resolve_ack(*ack), 0, None, vec![]),
            Pkt::Syn => (4, self.cfg.peer_isn, 0, 0, None, vec![]),
            Pkt::Raw { ptype, seq_off, ack_off, wnd, sack, payload } => {
                let e = self.peer_in_order() as i64;
                let hi = self.ep_hi_seq.unwrap_or(self.peer_cum_ack);
                let pl: Vec<u8> = (0..*payload as u64).map(|k| coded(k, 0x99)).collect();
                (*ptype, self.peer_seq_of(e + *seq_off as i64), seq_add(hi, *ack_off as i64), *wnd, sack.clone(), pl)
            }
        };
        b[0] = (ptype << 4) | 1;
        b[2..4].copy_from_slice(&self.recv_conn_id().to_be_bytes());
        let ts = self.now_us() as u32;
        b[4..8].copy_from_slice(&ts.to_be_bytes());
        b[12..16].copy_from_slice(&wnd.to_be_bytes());
        b[16..18].copy_from_slice(&seq.to_be_bytes());
        b[18..20].copy_from_slice(&ack.to_be_bytes());
        if let Some(m) = &sack {
            b[1] = 1;
            b.push(0);
            b.push(m.len().min(255) as u8);
            b.extend_from_slice(&m[..m.len().min(255)]);
        }
        b.extend_from_slice(&payload);
        Some((b, peer_idx))
    }

    /// Injects a scripted packet exactly as the socket dispatcher would: bytes -> library parser ->
    /// connection channel. Returns false if the packet is not applicable in this state.
    fn inject(&mut self, p: &Pkt, rec: &mut StepRecord) -> bool {
        let Some((bytes, peer_idx)) = self.build(p) else { return false };
        let parsed = std::panic::catch_unwind(|| UtpMessage::deserialize(&bytes));
        let msg = match parsed {
            Err(_) => {
                // the socket dispatcher task would have panicked: the whole socket is dead
                rec.panicked = Some("UtpMessage::deserialize panicked on a datagram (in the socket dispatcher this kills every connection)".into());
                self.done = Some(Err("panic in datagram parser".into()));
                return true;
            }
            Ok(None) => {
                // the socket dispatcher would drop it: nothing reaches the connection
                return true;
            }
            Ok(Some(m)) => m,
        };
        let (h, plen) = ref_parse_message(&bytes).expect("reference parser must accept what the library accepts");
        // peer bookkeeping: what it has acknowledged so far
        if h.ptype != 4 && h.ptype != 3 {
            let hi = self.ep_hi_seq.unwrap_or(self.peer_cum_ack);
            let adv = h.ack.wrapping_sub(self.peer_cum_ack) as i16;
            let within = (hi.wrapping_sub(h.ack) as i16) >= 0;
            if adv > 0 && within {
                self.peer_cum_ack = h.ack;
            }
        }
        rec.peer_sent.push((h, plen, peer_idx));
        if let Some(i) = peer_idx {
            self.peer_sent.insert(i);
        }
        self.ep.inject(msg);
        true
    }

    fn cx<'a>(w: &'a Waker) -> Context<'a> {
        Context::from_waker(w)
    }

    fn poll_d(&mut self, rec: &mut StepRecord) {
        if self.done.is_some() {
            return;
        }
        self.d.take();
        let waker: Waker = mk_waker(&self.d);
        let mut cx = Self::cx(&waker);
        rec.d_polls += 1;
        let r = std::panic::catch_unwind(std::panic::AssertUnwindSafe(|| self.ep.poll_once(&mut cx)));
        match r {
            Err(p) => {
                let msg = p.downcast_ref::<String>().cloned().or_else(|| p.downcast_ref::<&str>().map(|s| s.to_string())).unwrap_or_else(|| "panic".into());
                rec.panicked = Some(msg.clone());
                self.done = Some(Err(format!("panic: {msg}")));
            }
            Ok(Some(Poll::Ready(res))) => {
                let res = res.map_err(|e| e.to_string());
                rec.d_result = Some(res.clone());
                self.done = Some(res);
            }
            Ok(_) => {}
        }
    }

    fn app_write(&mut self, n: usize, rec: &mut StepRecord) {
        let Some(wh) = self.writer.as_mut() else { return };
        self.w.take();
        let data: Vec<u8> = (0..n as u64).map(|i| coded(self.written + i, SALT_EP)).collect();
        let waker: Waker = mk_waker(&self.w);
        let mut cx = Self::cx(&waker);
        match Pin::new(wh).poll_write(&mut cx, &data) {
            Poll::Ready(Ok(k)) => {
                self.written += k as u64;
                self.w_parked = Parked::No;
                rec.app.push(("write", AppRes::Ok(k)));
            }
            Poll::Ready(Err(e)) => {
                self.w_parked = Parked::No;
                self.writer_err = Some(e.to_string());
                rec.app.push(("write", AppRes::Err(e.to_string())));
            }
            Poll::Pending => {
                self.w_parked = Parked::Write(n);
                rec.app.push(("write", AppRes::Pending));
            }
        }
    }

    fn app_flush(&mut self, shutdown: bool, rec: &mut StepRecord) {
        let Some(wh) = self.writer.as_mut() else { return };
        self.w.take();
        let waker: Waker = mk_waker(&self.w);
        let mut cx = Self::cx(&waker);
        let r = if shutdown {
            self.shutdown_called = true;
            Pin::new(wh).poll_shutdown(&mut cx)
        } else {
            Pin::new(wh).poll_flush(&mut cx)
        };
        let name = if shutdown { "shutdown" } else { "flush" };
        match r {
            Poll::Ready(Ok(())) => {
                self.w_parked = Parked::No;
                rec.app.push((name, AppRes::Ok(0)));
            }
            Poll::Ready(Err(e)) => {
                self.w_parked = Parked::No;
                self.writer_err = Some(e.to_string());
                rec.app.push((name, AppRes::Err(e.to_string())));
            }
            Poll::Pending => {
                self.w_parked = if shutdown { Parked::Shutdown } else { Parked::Flush };
                rec.app.push((name, AppRes::Pending));
            }
        }
    }

    fn app_read(&mut self, n: usize, rec: &mut StepRecord) {
        let Some(rh) = self.reader.as_mut() else { return };
        self.r.take();
        let waker: Waker = mk_waker(&self.r);
        let mut cx = Self::cx(&waker);
        let mut buf = vec![0u8; n];
        let mut rb = ReadBuf::new(&mut buf);
        match Pin::new(rh).poll_read(&mut cx, &mut rb) {
            Poll::Ready(Ok(())) => {
                let k = rb.filled().len();
                self.r_parked = Parked::No;
                if n == 0 {
                    // a read into an empty buffer: nothing to report, and not an end-of-stream
                    rec.app.push(("read", AppRes::Ok(0)));
                } else if k == 0 {
                    self.reader_eof = true;
                    rec.app.push(("read", AppRes::Eof));
                } else {
                    for (i, byte) in rb.filled().iter().enumerate() {
                        if *byte != coded(self.read + i as u64, SALT_PEER) {
                            self.read_ok = false;
                        }
                    }
                    self.read += k as u64;
                    rec.app.push(("read", AppRes::Ok(k)));
                }
            }
            Poll::Ready(Err(e)) => {
                self.r_parked = Parked::No;
                self.reader_err = Some(e.to_string());
                rec.app.push(("read", AppRes::Err(e.to_string())));
            }
            Poll::Pending => {
                self.r_parked = Parked::Read(n);
                rec.app.push(("read", AppRes::Pending));
            }
        }
    }

    fn app_readv(&mut self, a: usize, b: usize, rec: &mut StepRecord) {
        let Some(rh) = self.reader.as_mut() else { return };
        self.r.take();
        let waker: Waker = mk_waker(&self.r);
        let mut cx = Self::cx(&waker);
        let mut b1 = vec![0xEEu8; a];
        let mut b2 = vec![0xEEu8; b];
        let res = {
            let mut iov = [std::io::IoSliceMut::new(&mut b1), std::io::IoSliceMut::new(&mut b2)];
            Pin::new(rh).poll_read_vectored(&mut cx, &mut iov)
        };
        match res {
            Poll::Ready(Ok(k)) => {
                self.r_parked = Parked::No;
                if a + b == 0 {
                    rec.app.push(("read", AppRes::Ok(0)));
                } else if k == 0 {
                    self.reader_eof = true;
                    rec.app.push(("read", AppRes::Eof));
                } else {
                    // the first buffer is filled completely before the second one is touched
                    let all: Vec<u8> = b1.iter().chain(b2.iter()).copied().collect();
                    if k > a + b {
                        self.read_ok = false;
                    }
                    for (i, byte) in all.iter().take(k).enumerate() {
                        if *byte != coded(self.read + i as u64, SALT_PEER) {
                            self.read_ok = false;
                        }
                    }
                    // nothing beyond the reported count was written
                    if all.iter().skip(k).any(|x| *x != 0xEE) {
                        self.read_ok = false;
                    }
                    self.read += k as u64;
                    rec.app.push(("read", AppRes::Ok(k)));
                }
            }
            Poll::Ready(Err(e)) => {
                self.r_parked = Parked::No;
                self.reader_err = Some(e.to_string());
                rec.app.push(("read", AppRes::Err(e.to_string())));
            }
            Poll::Pending => {
                self.r_parked = Parked::Read(a + b);
                rec.app.push(("read", AppRes::Pending));
            }
        }
    }

    /// The concurrent part of a `Par` step: one real thread per role (connection, write half, read half)
    /// under the controlled scheduler; a role's operations run in the given order on its thread and
    /// stop at the first one that returns Pending (what a task does).
    fn run_parallel(&mut self, ops: &[Act], sched: &[u8], rec: &mut StepRecord) {
        use super::sched::{controlled, Controller};
        enum PRes {
            D(Option<Poll<Result<(), String>>>),
            Write(usize, Poll<Result<usize, String>>),
            Flush(bool, Poll<Result<(), String>>),
            Read(usize, Poll<Result<Vec<u8>, String>>),
            DroppedWriter,
            DroppedReader,
        }
        let role = |a: &Act| match a {
            Act::Deliver(_) | Act::Spurious | Act::Tick => 0usize,
            Act::Write(_) | Act::Flush | Act::Shutdown | Act::DropWriter | Act::RepollWriterOtherTask => 1,
            _ => 2,
        };
        let handle = tokio::runtime::Handle::current();
        // other-task re-polls come with a new waker identity
        for o in ops {
            match o {
                Act::RepollWriterOtherTask => self.w = Arc::new(Flag::default()),
                Act::RepollReaderOtherTask => self.r = Arc::new(Flag::default()),
                _ => {}
            }
        }
        let groups: Vec<Vec<Act>> = (0..3).map(|r| ops.iter().filter(|o| role(o) == r).cloned().collect::<Vec<Act>>()).collect();
        let n_threads = groups.iter().filter(|g| !g.is_empty()).count();
        let ctrl = Controller::new(n_threads, sched);
        let written0 = self.written;
        let (w_parked, r_parked) = (self.w_parked, self.r_parked);
        let done = self.done.is_some();
        let (dflag, wflag, rflag) = (self.d.clone(), self.w.clone(), self.r.clone());
        let ep = &mut self.ep;
        let wslot = &mut self.writer;
        let rslot = &mut self.reader;
        let mut out_d: Option<Result<Vec<PRes>, String>> = None;
        let mut out_w: Option<Result<Vec<PRes>, String>> = None;
        let mut out_r: Option<Result<Vec<PRes>, String>> = None;
        let outcome = {
            let mut jobs: Vec<Box<dyn FnOnce() + Send + '_>> = vec![];
            let mut tid = 0usize;
            if !groups[0].is_empty() {
                let (ctrl, handle, flag, my, slot) = (ctrl.clone(), handle.clone(), dflag.clone(), tid, &mut out_d);
                tid += 1;
                let n = groups[0].len();
                jobs.push(Box::new(move || {
                    *slot = Some(controlled(&ctrl, my, &handle, || {
                        let mut res = vec![];
                        for _ in 0..n {
                            if done {
                                res.push(PRes::D(None));
                                break;
                            }
                            flag.take();
                            let waker: Waker = mk_waker(&flag);
                            let mut cx = Context::from_waker(&waker);
                            let r = ep.poll_once(&mut cx).map(|p| p.map(|r| r.map_err(|e| e.to_string())));
                            let finished = matches!(r, Some(Poll::Ready(_)));
                            res.push(PRes::D(r));
                            if finished {
                                break;
                            }
                        }
                        res
                    }));
                }));
            }
            if !groups[1].is_empty() {
                let (ctrl, handle, flag, my, slot) = (ctrl.clone(), handle.clone(), wflag.clone(), tid, &mut out_w);
                tid += 1;
                let list = groups[1].clone();
                jobs.push(Box::new(move || {
                    *slot = Some(controlled(&ctrl, my, &handle, || {
                        let mut res = vec![];
                        let mut written = written0;
                        for o in &list {
                            let kind = match o {
                                Act::Write(n) => Parked::Write(*n),
                                Act::Flush => Parked::Flush,
                                Act::Shutdown => Parked::Shutdown,
                                Act::DropWriter => Parked::No,
                                _ => w_parked,
                            };
                            flag.take();
                            let waker: Waker = mk_waker(&flag);
                            let mut cx = Context::from_waker(&waker);
                            let (r, pending) = match kind {
                                Parked::No => {
                                    *wslot = None;
                                    (PRes::DroppedWriter, true)
                                }
                                Parked::Write(n) => {
                                    let data: Vec<u8> = (0..n as u64).map(|i| coded(written + i, SALT_EP)).collect();
                                    let Some(wh) = wslot.as_mut() else { break };
                                    let r = Pin::new(wh).poll_write(&mut cx, &data).map(|r| r.map_err(|e| e.to_string()));
                                    if let Poll::Ready(Ok(k)) = &r {
                                        written += *k as u64;
                                    }
                                    let p = !matches!(r, Poll::Ready(Ok(_)));
                                    (PRes::Write(n, r), p)
                                }
                                Parked::Flush | Parked::Shutdown => {
                                    let Some(wh) = wslot.as_mut() else { break };
                                    let sd = kind == Parked::Shutdown;
                                    let r = if sd { Pin::new(wh).poll_shutdown(&mut cx) } else { Pin::new(wh).poll_flush(&mut cx) }.map(|r| r.map_err(|e| e.to_string()));
                                    let p = !matches!(r, Poll::Ready(Ok(_)));
                                    (PRes::Flush(sd, r), p)
                                }
                                Parked::Read(_) => unreachable!(),
                            };
                            res.push(r);
                            if pending {
                                break;
                            }
                        }
                        res
                    }));
                }));
            }
            if !groups[2].is_empty() {
                let (ctrl, handle, flag, my, slot) = (ctrl.clone(), handle.clone(), rflag.clone(), tid, &mut out_r);
                let list = groups[2].clone();
                jobs.push(Box::new(move || {
                    *slot = Some(controlled(&ctrl, my, &handle, || {
                        let mut res = vec![];
                        for o in &list {
                            let n = match o {
                                Act::Read(n) => Some(*n),
                                Act::DropReader => None,
                                _ => match r_parked {
                                    Parked::Read(n) => Some(n),
                                    _ => Some(1),
                                },
                            };
                            flag.take();
                            let waker: Waker = mk_waker(&flag);
                            let mut cx = Context::from_waker(&waker);
                            match n {
                                None => {
                                    *rslot = None;
                                    res.push(PRes::DroppedReader);
                                    break;
                                }
                                Some(n) => {
                                    let Some(rh) = rslot.as_mut() else { break };
                                    let mut buf = vec![0u8; n.max(1)];
                                    let mut rb = ReadBuf::new(&mut buf);
                                    let r = Pin::new(rh).poll_read(&mut cx, &mut rb);
                                    let r = r.map(|r| r.map(|()| rb.filled().to_vec()).map_err(|e| e.to_string()));
                                    let stop = !matches!(&r, Poll::Ready(Ok(b)) if !b.is_empty());
                                    res.push(PRes::Read(n, r));
                                    if stop {
                                        break;
                                    }
                                }
                            }
                        }
                        res
                    }));
                }));
            }
            super::sched::run_jobs(jobs, || ctrl.drive())
        };
        if let Some(d) = &outcome.deadlock {
            rec.panicked = Some(format!("deadlock between the connection and the stream halves: {d}"));
        }
        rec.sched = Some(outcome);
        // bookkeeping, exactly as for the sequential actions
        let mut results: Vec<Result<PRes, String>> = vec![];
        for o in [out_d, out_w, out_r].into_iter().flatten() {
            match o {
                Ok(list) => results.extend(list.into_iter().map(Ok)),
                Err(e) => results.push(Err(e)),
            }
        }
        for r in results {
            match r {
                Err(p) => {
                    if p != "verif-sched-abort" {
                        rec.panicked = Some(p.clone());
                        self.done = Some(Err(format!("panic: {p}")));
                    }
                }
                Ok(PRes::D(r)) => {
                    rec.d_polls += 1;
                    if let Some(Poll::Ready(res)) = r {
                        rec.d_result = Some(res.clone());
                        self.done = Some(res);
                    }
                }
                Ok(PRes::Write(n, r)) => match r {
                    Poll::Ready(Ok(k)) => {
                        self.written += k as u64;
                        self.w_parked = Parked::No;
                        rec.app.push(("write", AppRes::Ok(k)));
                    }
                    Poll::Ready(Err(e)) => {
                        self.w_parked = Parked::No;
                        self.writer_err = Some(e.clone());
                        rec.app.push(("write", AppRes::Err(e)));
                    }
                    Poll::Pending => {
                        self.w_parked = Parked::Write(n);
                        rec.app.push(("write", AppRes::Pending));
                    }
                },
                Ok(PRes::Flush(shutdown, r)) => {
                    if shutdown {
                        self.shutdown_called = true;
                    }
                    let name = if shutdown { "shutdown" } else { "flush" };
                    match r {
                        Poll::Ready(Ok(())) => {
                            self.w_parked = Parked::No;
                            rec.app.push((name, AppRes::Ok(0)));
                        }
                        Poll::Ready(Err(e)) => {
                            self.w_parked = Parked::No;
                            self.writer_err = Some(e.clone());
                            rec.app.push((name, AppRes::Err(e)));
                        }
                        Poll::Pending => {
                            self.w_parked = if shutdown { Parked::Shutdown } else { Parked::Flush };
                            rec.app.push((name, AppRes::Pending));
                        }
                    }
                }
                Ok(PRes::Read(n, r)) => match r {
                    Poll::Ready(Ok(bytes)) => {
                        self.r_parked = Parked::No;
                        if bytes.is_empty() {
                            self.reader_eof = true;
                            rec.app.push(("read", AppRes::Eof));
                        } else {
                            for (i, byte) in bytes.iter().enumerate() {
                                if *byte != coded(self.read + i as u64, SALT_PEER) {
                                    self.read_ok = false;
                                }
                            }
                            self.read += bytes.len() as u64;
                            rec.app.push(("read", AppRes::Ok(bytes.len())));
                        }
                    }
                    Poll::Ready(Err(e)) => {
                        self.r_parked = Parked::No;
                        self.reader_err = Some(e.clone());
                        rec.app.push(("read", AppRes::Err(e)));
                    }
                    Poll::Pending => {
                        self.r_parked = Parked::Read(n);
                        rec.app.push(("read", AppRes::Pending));
                    }
                },
                Ok(PRes::DroppedWriter) => self.w_parked = Parked::No,
                Ok(PRes::DroppedReader) => self.r_parked = Parked::No,
            }
        }
    }

    /// Runs every woken task (connection first, then writer, then reader) until nothing is woken:
    /// what a runtime does at one instant. An honest executor: nobody is polled without a wake-up.
    fn quiesce(&mut self, rec: &mut StepRecord) {
        for _ in 0..64 {
            let mut any = false;
            if self.d.is_set() && self.done.is_none() {
                self.poll_d(rec);
                any = true;
            }
            if self.w.is_set() {
                match self.w_parked {
                    Parked::Write(n) => {
                        rec.w_woken = true;
                        self.app_write(n, rec);
                        any = true;
                    }
                    Parked::Flush => {
                        rec.w_woken = true;
                        self.app_flush(false, rec);
                        any = true;
                    }
                    Parked::Shutdown => {
                        rec.w_woken = true;
                        self.app_flush(true, rec);
                        any = true;
                    }
                    _ => {
                        self.w.take();
                    }
                }
            }
            if self.r.is_set() {
                match self.r_parked {
                    Parked::Read(n) => {
                        rec.r_woken = true;
                        self.app_read(n, rec);
                        any = true;
                    }
                    _ => {
                        self.r.take();
                    }
                }
            }
            if !any {
                return;
            }
        }
        rec.livelock = true;
    }

    /// Is the action applicable in the current state? (Disabled actions are not transitions.)
    pub fn enabled(&self, a: &Act) -> bool {
        match a {
            Act::Write(_) => self.writer.is_some() && self.w_parked == Parked::No && self.writer_err.is_none() && !self.shutdown_called,
            Act::Flush => self.writer.is_some() && self.w_parked == Parked::No && self.writer_err.is_none() && !self.shutdown_called,
            Act::Shutdown => self.writer.is_some() && self.w_parked == Parked::No && !self.shutdown_called && self.writer_err.is_none(),
            Act::Read(_) | Act::ReadV(..) => self.reader.is_some() && self.r_parked == Parked::No && !self.reader_eof && self.reader_err.is_none(),
            Act::DropReader => self.reader.is_some(),
            Act::DropWriter => self.writer.is_some(),
            Act::Deliver(_) | Act::Deliver2(..) | Act::Deliver3(..) | Act::Spurious | Act::Tick | Act::Wait(_) | Act::Sleep(_) => self.done.is_none(),
            Act::Emsgsize(x) => self.tr.lock().emsgsize_above != *x,
            Act::TransportPendingOnce => !self.tr.lock().pending_once && self.done.is_none(),
            Act::TransportPendingHold => self.tr.lock().pending_hold_steps == 0 && !self.tr.lock().pending_once && self.done.is_none(),
            Act::RepollWriterOtherTask => self.writer.is_some() && self.w_parked != Parked::No,
            Act::RepollReaderOtherTask => self.reader.is_some() && self.r_parked != Parked::No,
            Act::Par { ops, .. } => {
                let role = |a: &Act| match a {
                    Act::Deliver(_) | Act::Spurious | Act::Tick => Some(0),
                    Act::Write(_) | Act::Flush | Act::Shutdown | Act::DropWriter | Act::RepollWriterOtherTask => Some(1),
                    Act::Read(_) | Act::DropReader | Act::RepollReaderOtherTask => Some(2),
                    _ => None,
                };
                // one connection action; up to two consecutive actions of each half (a task that continues)
                let mut count = [0usize; 3];
                for o in ops {
                    match role(o) {
                        Some(r) => count[r] += 1,
                        None => return false,
                    }
                    if !self.enabled(o) {
                        return false;
                    }
                }
                count[0] <= 1 && count[1] <= 2 && count[2] <= 2 && count.iter().filter(|c| **c > 0).count() >= 2
            }
        }
    }

    /// Executes one action followed by running all woken tasks to quiescence. Returns false (and
    /// records nothing) if the action is not applicable.
    pub async fn step(&mut self, a: &Act) -> bool {
        if !self.enabled(a) {
            return false;
        }
        let mut rec = StepRecord { step: self.step, ..Default::default() };
        rec.obs_before = self.ep.observe(tokio::time::Instant::now().into_std());
        rec.d_woken_before = self.d.is_set();
        let sent_before = self.tr.lock().sent.len();
        let t_before = tokio::time::Instant::now();
        match a {
            Act::Deliver(p) => {
                if !self.inject(p, &mut rec) {
                    return false;
                }
            }
            Act::Deliver2(p, q) => {
                if !self.inject(p, &mut rec) {
                    return false;
                }
                if !self.inject(q, &mut rec) {
                    return false;
                }
            }
            Act::Deliver3(p, q, r) => {
                for x in [p, q, r] {
                    if !self.inject(x, &mut rec) {
                        return false;
                    }
                }
            }
            Act::Write(n) => self.app_write(*n, &mut rec),
            Act::Read(n) => self.app_read(*n, &mut rec),
            Act::ReadV(a, b) => self.app_readv(*a, *b, &mut rec),
            Act::Flush => self.app_flush(false, &mut rec),
            Act::Shutdown => self.app_flush(true, &mut rec),
            Act::DropReader => {
                self.reader = None;
                self.r_parked = Parked::No;
            }
            Act::DropWriter => {
                self.writer = None;
                self.w_parked = Parked::No;
            }
            Act::Spurious => self.poll_d(&mut rec),
            Act::Tick => {
                if self.d.is_set() {
                    // already runnable: nothing to wait for
                } else {
                    let d = self.d.clone();
                    if tokio::time::timeout(Duration::from_secs(120), FlagFuture(&d)).await.is_err() {
                        // no timer within the horizon: the state is quiescent for good; time does not matter
                        return false;
                    }
                }
            }
            Act::Wait(ms) => {
                if !self.d.is_set() {
                    let d = self.d.clone();
                    let _ = tokio::time::timeout(Duration::from_millis(*ms), FlagFuture(&d)).await;
                }
            }
            Act::Sleep(ms) => {
                let deadline = tokio::time::Instant::now() + Duration::from_millis(*ms);
                loop {
                    if self.d.is_set() {
                        self.poll_d(&mut rec);
                    }
                    if self.done.is_some() || tokio::time::Instant::now() >= deadline {
                        break;
                    }
                    let d = self.d.clone();
                    let _ = tokio::time::timeout_at(deadline, FlagFuture(&d)).await;
                }
            }
            Act::Emsgsize(x) => self.tr.lock().emsgsize_above = *x,
            Act::TransportPendingOnce => self.tr.lock().pending_once = true,
            Act::TransportPendingHold => self.tr.lock().pending_hold_steps = 3,
            Act::RepollWriterOtherTask => {
                // a wake-up that already happened is not lost by the hand-over: the new task polls anyway
                self.w = Arc::new(Flag::default());
                match self.w_parked {
                    Parked::Write(n) => self.app_write(n, &mut rec),
                    Parked::Flush => self.app_flush(false, &mut rec),
                    Parked::Shutdown => self.app_flush(true, &mut rec),
                    _ => {}
                }
            }
            Act::RepollReaderOtherTask => {
                self.r = Arc::new(Flag::default());
                if let Parked::Read(n) = self.r_parked {
                    self.app_read(n, &mut rec);
                }
            }
            Act::Par { ops, sched } => {
                // sequential preparation: datagrams are queued, the clock moves to the timer
                for o in ops {
                    match o {
                        Act::Deliver(p) => {
                            if !self.inject(p, &mut rec) {
                                return false;
                            }
                        }
                        Act::Tick => {
                            if !self.d.is_set() {
                                let d = self.d.clone();
                                if tokio::time::timeout(Duration::from_secs(120), FlagFuture(&d)).await.is_err() {
                                    return false;
                                }
                            }
                        }
                        _ => {}
                    }
                }
                self.run_parallel(ops, sched, &mut rec);
            }
        }
        self.quiesce(&mut rec);
        // a transport that was pending becomes ready again "later": wake whoever waited for it
        let pw = {
            let mut g = self.tr.lock();
            if g.pending_hold_steps > 0 {
                g.pending_hold_steps -= 1;
            }
            if g.pending_hold_steps > 0 {
                None
            } else {
                g.pending_waker.take()
            }
        };
        if let Some(w) = pw {
            w.wake();
            self.quiesce(&mut rec);
        }
        rec.clock_advanced_us = (tokio::time::Instant::now() - t_before).as_micros() as u64;
        self.finish_step(rec, sent_before);
        true
    }

    fn finish_step(&mut self, mut rec: StepRecord, sent_before: usize) {
        rec.t_us = self.now_us();
        // collect emissions
        let new: Vec<Vec<u8>> = {
            let g = self.tr.lock();
            g.sent[sent_before..].to_vec()
        };
        rec.rejected = std::mem::take(&mut self.tr.lock().rejected);
        for b in new {
            match ref_parse_message(&b) {
                Some((h, _)) => {
                    let payload = b[h.header_len..].to_vec();
                    if h.ptype == 0 {
                        self.ep_seg_len.insert(h.seq, payload.len());
                    }
                    if h.ptype == 0 || h.ptype == 1 {
                        if self.ep_first_seq.is_none() {
                            self.ep_first_seq = Some(h.seq);
                        }
                        let hi = self.ep_hi_seq.unwrap_or(h.seq.wrapping_sub(1));
                        if (h.seq.wrapping_sub(hi) as i16) > 0 {
                            self.ep_hi_seq = Some(h.seq);
                        }
                    }
                    self.ep_last_ack_nr = h.ack;
                    self.ep_last_wnd = h.wnd;
                    rec.emitted.push(Emit { t_us: rec.t_us, len: b.len(), hdr: h, payload, step: self.step });
                }
                None => rec.unparseable_emit = true,
            }
        }
        rec.obs_after = self.ep.observe(tokio::time::Instant::now().into_std());
        self.trace.push(rec);
        self.step += 1;
    }

    /// Harness state that the connection fingerprint does not cover.
    pub fn harness_fp(&self, out: &mut Vec<u64>) {
        out.push(self.written);
        out.push(self.read);
        out.push(self.read_ok as u64);
        let p = |x: Parked| match x {
            Parked::No => 0u64,
            Parked::Write(n) => 1 + ((n as u64) << 8),
            Parked::Read(n) => 2 + ((n as u64) << 8),
            Parked::Flush => 3,
            Parked::Shutdown => 4,
        };
        out.push(p(self.w_parked));
        out.push(p(self.r_parked));
        out.push(
            (self.shutdown_called as u64)
                | (self.reader_eof as u64) << 1
                | (self.reader_err.is_some() as u64) << 2
                | (self.writer_err.is_some() as u64) << 3
                | (self.reader.is_some() as u64) << 4
                | (self.writer.is_some() as u64) << 5
                | (self.d.is_set() as u64) << 6
                | (self.w.is_set() as u64) << 7
                | (self.r.is_set() as u64) << 8
                | (self.done.is_some() as u64) << 9
                | (matches!(self.done, Some(Err(_))) as u64) << 10,
        );
        // whom the registered wakers would wake (0 none, 1 the task that polled last, 2 someone else)
        let (ww, rw) = self.waker_targets();
        out.push(ww as u64 | (rw as u64) << 2);
        out.push(self.peer_sent.len() as u64);
        for d in &self.peer_sent {
            out.push(*d as u64);
        }
        out.push(self.peer_fin_idx.map(|x| x as u64).unwrap_or(u64::MAX));
        out.push(self.peer_exceeded_window as u64);
        out.push(self.peer_cum_ack as u64);
        out.push(self.ep_first_seq.map(|x| x as u64).unwrap_or(u64::MAX));
        out.push(self.ep_hi_seq.map(|x| x as u64).unwrap_or(u64::MAX));
        out.push(self.ep_last_ack_nr as u64);
        out.push(self.ep_last_wnd as u64);
        for (sq, l) in &self.ep_seg_len {
            if (sq.wrapping_sub(self.peer_cum_ack) as i16) > 0 {
                out.push(((*sq as u64) << 32) | *l as u64);
            }
        }
        {
            let g = self.tr.lock();
            out.push(g.emsgsize_above.map(|x| x as u64).unwrap_or(u64::MAX));
            out.push(g.pending_once as u64);
            out.push(g.pending_hold_steps as u64);
        }
        if let Some(r) = &self.reader {
            r.verif_fp(out);
            if self.ep.is_done() {
                // the shared queue outlives the connection object
                r.verif_shared_fp(out);
            }
        }
        if let Some(w) = &self.writer {
            out.push(w.verif_written_without_yield());
            if self.ep.is_done() {
                w.verif_shared_fp(out);
            }
        }
    }

    /// (writer slot, reader slot): 0 = no waker registered, 1 = the registered waker wakes the task
    /// that polled the half last, 2 = it wakes some other (earlier) task.
    pub fn waker_targets(&self) -> (u8, u8) {
        let code = |x: Option<bool>| match x {
            None => 0u8,
            Some(true) => 1,
            Some(false) => 2,
        };
        let ww = self.writer.as_ref().map(|h| {
            let cur: Waker = mk_waker(&self.w);
            code(h.verif_writer_waker_wakes(&cur))
        });
        let rw = self.reader.as_ref().map(|h| {
            let cur: Waker = mk_waker(&self.r);
            code(h.verif_reader_waker_wakes(&cur))
        });
        (ww.unwrap_or(0), rw.unwrap_or(0))
    }

    pub fn fingerprint(&self) -> Vec<u64> {
        let mut out = Vec::with_capacity(128);
        self.ep.fingerprint(tokio::time::Instant::now().into_std(), &mut out);
        self.harness_fp(&mut out);
        out
    }
}
