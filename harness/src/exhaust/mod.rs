//! `exhaust`: exhaustive enumeration of component behaviour against reference models (seam S1).

pub mod cubic;
pub mod ring;
pub mod segsizes;
pub mod rtte;
pub mod seqnr;
pub mod wire;

use serde_json::Value;

pub fn replay(v: &Value) -> i32 {
    let r = &v["replay"];
    match r["check"].as_str().unwrap_or("") {
        "seqnr" => seqnr::replay(r),
        "wire" => wire::replay(r),
        "cubic" => cubic::replay(r),
        "rtte" => rtte::replay(r),
        "ring" => ring::replay(r),
        "segsizes" => segsizes::replay(r),
        other => crate::common::machinery_error(&format!("unknown exhaust check {other:?}")),
    }
}
