//! C19: the real `UserTx` ring (write through the real write half, truncate_front, grow) against a
//! VecDeque reference, all operation sequences up to a depth.

use std::{
    collections::VecDeque,
    num::NonZeroUsize,
    pin::Pin,
    sync::Arc,
    task::{Context, Poll, Wake, Waker},
};

use librqbit_utp::{verif::UserTx, UtpStreamWriteHalf};
use rayon::prelude::*;
use serde_json::json;
use tokio::io::AsyncWrite;

use crate::common::*;

struct Noop;
impl Wake for Noop {
    fn wake(self: Arc<Self>) {}
}

#[derive(Clone, Copy, Debug)]
enum Op {
    Write(usize),
    Truncate(usize), // usize::MAX = everything
    Grow,
}

fn ops() -> Vec<Op> {
    vec![Op::Write(1), Op::Write(3), Op::Write(5), Op::Write(64), Op::Truncate(1), Op::Truncate(2), Op::Truncate(usize::MAX), Op::Grow]
}

fn run_seq(init: usize, max: usize, seq: &[u8]) -> Result<u64, (String, String)> {
    let all = ops();
    let tx = UserTx::new(NonZeroUsize::new(init).unwrap());
    let mut wh = UtpStreamWriteHalf::new(tx.clone());
    let waker: Waker = Arc::new(Noop).into();
    let mut cx = Context::from_waker(&waker);
    let mut model: VecDeque<u8> = VecDeque::new();
    let mut cap = init;
    let mut next: u8 = 0;
    let mut steps = 0u64;
    for (i, oi) in seq.iter().enumerate() {
        steps += 1;
        match all[*oi as usize] {
            Op::Write(n) => {
                let data: Vec<u8> = (0..n).map(|k| next.wrapping_add(k as u8).wrapping_mul(31).wrapping_add(7)).collect();
                let r = Pin::new(&mut wh).poll_write(&mut cx, &data);
                let free = cap - model.len();
                let want = n.min(free);
                match r {
                    Poll::Ready(Ok(k)) => {
                        if k != want || want == 0 {
                            return Err(("ring/write-accepts-wrong-count".into(), format!("step {i}: write of {n} into a ring with {free} free bytes accepted {k}")));
                        }
                        for b in &data[..k] {
                            model.push_back(*b);
                        }
                        next = next.wrapping_add(k as u8);
                    }
                    Poll::Pending => {
                        if want != 0 {
                            return Err(("ring/write-pending-with-free-space".into(), format!("step {i}: write of {n} is Pending although {free} bytes are free")));
                        }
                    }
                    Poll::Ready(Err(e)) => return Err(("ring/write-error".into(), format!("step {i}: {e}"))),
                }
            }
            Op::Truncate(k) => {
                let k = if k == usize::MAX { model.len() } else { k.min(model.len()) };
                if let Err(e) = tx.truncate_front(k) {
                    return Err(("ring/truncate-error".into(), format!("step {i}: truncate_front({k}) failed: {e}")));
                }
                for _ in 0..k {
                    model.pop_front();
                }
            }
            Op::Grow => {
                let r = tx.grow(NonZeroUsize::new(max).unwrap());
                let want = if cap >= max { None } else { Some((cap * 2).min(max)) };
                if r != want {
                    return Err(("ring/grow-wrong-capacity".into(), format!("step {i}: grow(max {max}) from capacity {cap} returned {r:?}, expected {want:?}")));
                }
                if let Some(c) = want {
                    cap = c;
                }
            }
        }
        let (len, rcap) = tx.verif_ring();
        let content = tx.verif_ring_contents();
        if rcap != cap || len != model.len() || content.iter().copied().ne(model.iter().copied()) {
            return Err((
                "ring/content-differs-from-reference".into(),
                format!("step {i} ({:?}): ring holds {len} bytes (capacity {rcap}), reference {} bytes (capacity {cap}); contents {}", all[*oi as usize], model.len(), if content.iter().copied().eq(model.iter().copied()) { "equal" } else { "DIFFER" }),
            ));
        }
        if len > init.max(max) {
            return Err(("ring/exceeds-limit".into(), format!("ring holds {len} bytes, limit max(initial, max) = {}", init.max(max))));
        }
    }
    Ok(steps)
}

pub fn run(ctx: &Ctx) -> Outcome {
    let depth = ctx.tier.pick(6usize, 8usize);
    let n = ops().len();
    let mut out = Outcome::default();
    for (init, max) in [(4usize, 4usize), (4, 16), (6, 13), (16, 4)] {
        // all sequences of length `depth` (their prefixes are checked step by step along the way)
        let total = (n as u64).pow(depth as u32);
        let results: Vec<Result<u64, (String, String, Vec<u8>)>> = (0..total)
            .into_par_iter()
            .map(|mut code| {
                let mut seq = Vec::with_capacity(depth);
                for _ in 0..depth {
                    seq.push((code % n as u64) as u8);
                    code /= n as u64;
                }
                run_seq(init, max, &seq).map_err(|(a, b)| (a, b, seq))
            })
            .collect();
        let mut part = Part::mc(&format!("tx-ring-{init}-{max}"));
        part.states = total;
        let mut sigs = std::collections::BTreeSet::new();
        for r in results {
            match r {
                Ok(s) => part.transitions += s,
                Err((sig, msg, seq)) => {
                    if sigs.insert(sig.clone()) {
                        out.violations.push(Violation {
                            property: "C19".into(),
                            monitor: "tx-ring-reference".into(),
                            signature: sig,
                            detail: format!("[initial {init}, max {max}, ops {:?}] {msg}", seq.iter().map(|i| format!("{:?}", ops()[*i as usize])).collect::<Vec<_>>()),
                            replay: json!({"engine":"exhaust","check":"ring","init":init,"max":max,"ops":seq}),
                        });
                    }
                }
            }
        }
        part.distinct_outcomes = 1 + sigs.len() as u64;
        part.bound = format!("all {n}^{depth} operation sequences (write 1/3/5/64, truncate 1/2/all, grow) with wrap-around positions");
        part.samples.push(json!(["Write(5)", "Truncate(2)", "Write(3)", "Grow", "Write(64)", "Truncate(all)"]));
        out.parts.push(part);
    }
    out
}

pub fn replay(r: &serde_json::Value) -> i32 {
    let init = r["init"].as_u64().unwrap_or(4) as usize;
    let max = r["max"].as_u64().unwrap_or(4) as usize;
    let seq: Vec<u8> = r["ops"].as_array().map(|a| a.iter().map(|x| x.as_u64().unwrap_or(0) as u8).collect()).unwrap_or_default();
    match run_seq(init, max, &seq) {
        Ok(_) => {
            println!("REPLAY-OK");
            0
        }
        Err((sig, msg)) => {
            println!("REPLAY-VIOLATION {sig}: {msg}");
            1
        }
    }
}
