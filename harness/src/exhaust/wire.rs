//! C11: wire format. An independent BEP-29 reference parser (written from the specification, not
//! from `raw.rs`) is compared with the library on a structural enumeration of byte strings;
//! header round trip over boundary values; (emitted traffic is validated by `refparse` from the
//! solo/duo engines, see `validate_emitted`).

use librqbit_utp::raw::{
    ext_close_reason::LibTorrentCloseReason, selective_ack::SelectiveAck, Extensions, Type,
    UtpHeader,
};
use librqbit_utp::verif::UtpMessage;
use rayon::prelude::*;
use serde_json::{json, Value};

use crate::common::*;

#[derive(Debug, Clone, PartialEq, Eq)]
pub struct RefHeader {
    pub ptype: u8,
    pub conn_id: u16,
    pub ts: u32,
    pub ts_diff: u32,
    pub wnd: u32,
    pub seq: u16,
    pub ack: u16,
    /// (first 8 mask bytes zero padded, declared length in bytes) of the last selective-ack extension
    pub sack: Option<([u8; 8], usize)>,
    /// libtorrent close-reason extension (id 3, length 4), low 16 bits
    pub close_reason: Option<u16>,
    pub header_len: usize,
}

/// BEP 29 header parser. Returns None iff the datagram is not a well-formed version-1 uTP header.
pub fn ref_parse_header(b: &[u8]) -> Option<RefHeader> {
    if b.len() < 20 {
        return None;
    }
    let ptype = b[0] >> 4;
    let version = b[0] & 0x0f;
    if version != 1 || ptype > 4 {
        return None;
    }
    let be16 = |i: usize| u16::from_be_bytes([b[i], b[i + 1]]);
    let be32 = |i: usize| u32::from_be_bytes([b[i], b[i + 1], b[i + 2], b[i + 3]]);
    let mut h = RefHeader {
        ptype,
        conn_id: be16(2),
        ts: be32(4),
        ts_diff: be32(8),
        wnd: be32(12),
        seq: be16(16),
        ack: be16(18),
        sack: None,
        close_reason: None,
        header_len: 20,
    };
    let mut ext = b[1];
    let mut pos = 20usize;
    while ext != 0 {
        // each extension: next-extension byte, length byte, `length` bytes of data
        if pos + 2 > b.len() {
            return None;
        }
        let next = b[pos];
        let len = b[pos + 1] as usize;
        if pos + 2 + len > b.len() {
            return None;
        }
        let data = &b[pos + 2..pos + 2 + len];
        match ext {
            1 => {
                let mut m = [0u8; 8];
                let n = len.min(8);
                m[..n].copy_from_slice(&data[..n]);
                h.sack = Some((m, len));
            }
            3 if len == 4 => {
                h.close_reason = Some(u16::from_be_bytes([data[2], data[3]]));
            }
            _ => {} // unknown extensions are skipped
        }
        pos += 2 + len;
        ext = next;
    }
    h.header_len = pos;
    Some(h)
}

/// Message-level acceptance: payload present exactly for ST_DATA.
pub fn ref_parse_message(b: &[u8]) -> Option<(RefHeader, usize)> {
    let h = ref_parse_header(b)?;
    let payload = b.len() - h.header_len;
    if (h.ptype == 0) != (payload > 0) {
        return None;
    }
    Some((h, payload))
}

fn type_num(t: Type) -> u8 {
    match t {
        Type::ST_DATA => 0,
        Type::ST_FIN => 1,
        Type::ST_STATE => 2,
        Type::ST_RESET => 3,
        Type::ST_SYN => 4,
    }
}

fn lib_to_ref(h: &UtpHeader, hlen: usize) -> RefHeader {
    RefHeader {
        ptype: type_num(h.htype),
        conn_id: h.connection_id.0,
        ts: h.timestamp_microseconds,
        ts_diff: h.timestamp_difference_microseconds,
        wnd: h.wnd_size,
        seq: h.seq_nr.0,
        ack: h.ack_nr.0,
        sack: h.extensions.selective_ack.map(|s| {
            let mut m = [0u8; 8];
            let raw = s.as_bitslice();
            for (i, bit) in raw.iter().enumerate().take(64) {
                if *bit {
                    m[i / 8] |= 1 << (i % 8);
                }
            }
            (m, s.len() / 8)
        }),
        close_reason: h.extensions.close_reason.map(|c| c.0),
        header_len: hlen,
    }
}

/// Compare library and reference on one byte string. Returns a description of the disagreement.
pub fn compare(b: &[u8]) -> Option<(&'static str, String)> {
    let lib_h = std::panic::catch_unwind(|| UtpHeader::deserialize(b));
    let lib_m = std::panic::catch_unwind(|| UtpMessage::deserialize(b));
    let (lib_h, lib_m) = match (lib_h, lib_m) {
        (Ok(h), Ok(m)) => (h, m),
        _ => return Some(("parser-panic", "deserialize panicked".into())),
    };
    let ref_h = ref_parse_header(b);
    match (&lib_h, &ref_h) {
        (None, None) => {}
        (Some((h, l)), Some(r)) => {
            let got = lib_to_ref(h, *l);
            if got != *r {
                return Some((
                    "header-fields",
                    format!("library parsed {got:?}, reference {r:?}"),
                ));
            }
        }
        (Some(_), None) => {
            return Some((
                "accepts-malformed",
                "library accepts a header the reference rejects".into(),
            ))
        }
        (None, Some(_)) => {
            return Some((
                "rejects-wellformed",
                "library rejects a header the reference accepts".into(),
            ))
        }
    }
    let ref_m = ref_parse_message(b);
    match (&lib_m, &ref_m) {
        (None, None) => {}
        (Some(m), Some((r, plen))) => {
            if m.payload().len() != *plen || m.payload() != &b[r.header_len..] {
                return Some((
                    "payload-boundary",
                    format!(
                        "library payload len {} vs reference {} (header_len {})",
                        m.payload().len(),
                        plen,
                        r.header_len
                    ),
                ));
            }
            let got = lib_to_ref(&m.header, r.header_len);
            if got != *r {
                return Some(("message-header-fields", format!("{got:?} vs {r:?}")));
            }
        }
        (Some(_), None) => {
            return Some((
                "message-accepts-malformed",
                "UtpMessage::deserialize accepts what the reference rejects (payload rule / header)".into(),
            ))
        }
        (None, Some(_)) => {
            return Some((
                "message-rejects-wellformed",
                "UtpMessage::deserialize rejects what the reference accepts".into(),
            ))
        }
    }
    None
}

fn filler(seed: u64, i: usize) -> u8 {
    if seed == 0 {
        (i.wrapping_mul(37).wrapping_add(11) & 0xff) as u8
    } else {
        let mut x = seed ^ (i as u64).wrapping_mul(0x9E3779B97F4A7C15);
        x ^= x >> 33;
        x = x.wrapping_mul(0xff51afd7ed558ccd);
        x ^= x >> 29;
        (x & 0xff) as u8
    }
}

const EXT_IDS: [u8; 4] = [1, 2, 3, 255];
const EXT_LENS: [u8; 8] = [0, 1, 3, 4, 5, 8, 9, 255];

/// Builds header + chain + payload; `links` = (id, declared len). `last_next` is the next-pointer
/// of the last link (0 terminates; non-zero makes the chain run into the payload / off the end).
fn build(ptype: u8, version: u8, links: &[(u8, u8)], last_next: u8, payload: usize, seed: u64) -> Vec<u8> {
    let mut b = vec![0u8; 20];
    b[0] = (ptype << 4) | version;
    b[1] = links.first().map(|l| l.0).unwrap_or(0);
    for (i, x) in b.iter_mut().enumerate().skip(2) {
        *x = filler(seed, i);
    }
    for (i, (_, len)) in links.iter().enumerate() {
        let next = if i + 1 < links.len() { links[i + 1].0 } else { last_next };
        b.push(next);
        b.push(*len);
        for k in 0..*len as usize {
            let pos = b.len();
            b.push(filler(seed, pos + k));
        }
    }
    for _ in 0..payload {
        let pos = b.len();
        b.push(filler(seed, pos));
    }
    b
}

struct Tally {
    evaluated: u64,
    accepted_hdr: u64,
    accepted_msg: u64,
    first_bad: Option<(&'static str, String, Vec<u8>)>,
    bad: u64,
    /// byte strings on which a parser panicked (C10's clause; the shortest one is kept)
    panics: u64,
    first_panic: Option<Vec<u8>>,
}

impl Tally {
    fn new() -> Self {
        Tally { evaluated: 0, accepted_hdr: 0, accepted_msg: 0, first_bad: None, bad: 0, panics: 0, first_panic: None }
    }
    fn feed(&mut self, b: &[u8]) {
        self.evaluated += 1;
        if ref_parse_header(b).is_some() {
            self.accepted_hdr += 1;
        }
        if ref_parse_message(b).is_some() {
            self.accepted_msg += 1;
        }
        if let Some((k, m)) = compare(b) {
            self.bad += 1;
            if k == "parser-panic" {
                self.panics += 1;
                if self.first_panic.as_ref().is_none_or(|old| b.len() < old.len()) {
                    self.first_panic = Some(b.to_vec());
                }
            }
            let better = match &self.first_bad {
                None => true,
                Some((_, _, old)) => b.len() < old.len(),
            };
            if better {
                self.first_bad = Some((k, m, b.to_vec()));
            }
        }
    }
    fn merge(mut self, o: Tally) -> Tally {
        self.evaluated += o.evaluated;
        self.accepted_hdr += o.accepted_hdr;
        self.accepted_msg += o.accepted_msg;
        self.bad += o.bad;
        self.panics += o.panics;
        match (&self.first_panic, o.first_panic) {
            (None, x) => self.first_panic = x,
            (Some(a), Some(x)) if x.len() < a.len() => self.first_panic = Some(x),
            _ => {}
        }
        match (&self.first_bad, o.first_bad) {
            (None, x) => self.first_bad = x,
            (Some((_, _, a)), Some(x)) if x.2.len() < a.len() => self.first_bad = Some(x),
            _ => {}
        }
        self
    }
}

fn all_prefixes(t: &mut Tally, b: &[u8]) {
    for n in 0..=b.len() {
        t.feed(&b[..n]);
    }
}

fn structural(max_links: usize, seeds: &[u64]) -> Tally {
    // enumerate link shapes
    let mut shapes: Vec<Vec<(u8, u8)>> = vec![vec![]];
    let mut frontier: Vec<Vec<(u8, u8)>> = vec![vec![]];
    for _ in 0..max_links {
        let mut next = vec![];
        for s in &frontier {
            for id in EXT_IDS {
                for len in EXT_LENS {
                    let mut n = s.clone();
                    n.push((id, len));
                    next.push(n);
                }
            }
        }
        shapes.extend(next.iter().cloned());
        frontier = next;
    }
    shapes
        .par_iter()
        .map(|links| {
            let mut t = Tally::new();
            for &seed in seeds {
                for ptype in 0u8..=4 {
                    for payload in 0usize..=2 {
                        for last_next in [0u8, 1, 3, 7] {
                            if links.is_empty() && last_next != 0 {
                                continue;
                            }
                            let b = build(ptype, 1, links, last_next, payload, seed);
                            all_prefixes(&mut t, &b);
                        }
                    }
                }
            }
            t
        })
        .reduce(Tally::new, Tally::merge)
}

fn first_bytes(seeds: &[u64]) -> Tally {
    let mut t = Tally::new();
    for &seed in seeds {
        for fb in 0u16..=255 {
            for ext in [0u8, 1, 3, 200] {
                for total in [20usize, 21, 22, 26, 30] {
                    let mut b: Vec<u8> = (0..total).map(|i| filler(seed, i)).collect();
                    b[0] = fb as u8;
                    b[1] = ext;
                    if total >= 22 {
                        b[20] = 0;
                        b[21] = (total - 22).min(4) as u8;
                    }
                    t.feed(&b);
                }
            }
        }
        // every length 0..=40 of plain filler with a valid first byte for each type
        for ptype in 0u8..=4 {
            for n in 0usize..=40 {
                let mut b: Vec<u8> = (0..n).map(|i| filler(seed, i)).collect();
                if n > 0 {
                    b[0] = (ptype << 4) | 1;
                }
                if n > 1 {
                    b[1] = 0;
                }
                t.feed(&b);
            }
        }
    }
    t
}

// ---------------- round trip ----------------

fn sack_domain() -> Vec<(String, Option<SelectiveAck>)> {
    let mut v: Vec<(String, Option<SelectiveAck>)> = vec![("none".into(), None)];
    for (name, idx) in [
        ("new[]", vec![]),
        ("new[0]", vec![0usize]),
        ("new[63]", vec![63]),
        ("new[0,1,2]", vec![0, 1, 2]),
        ("new[all]", (0..64).collect()),
        ("new[0,64,200]", vec![0, 64, 200]),
    ] {
        v.push((name.into(), Some(SelectiveAck::new(idx.into_iter()))));
    }
    for n in [0usize, 1, 4, 7, 8] {
        for pat in [0x00u8, 0xff, 0xa5] {
            let bytes = vec![pat; n];
            v.push((format!("deserialize({n}x{pat:#x})"), Some(SelectiveAck::deserialize(&bytes))));
        }
    }
    v
}

fn roundtrip() -> (u64, u64, Vec<(String, String, Value)>) {
    let sacks = sack_domain();
    let closes: Vec<Option<LibTorrentCloseReason>> = vec![
        None,
        Some(LibTorrentCloseReason(0)),
        Some(LibTorrentCloseReason(15)),
        Some(LibTorrentCloseReason(288)),
        Some(LibTorrentCloseReason(65535)),
    ];
    let types = [Type::ST_DATA, Type::ST_FIN, Type::ST_STATE, Type::ST_RESET, Type::ST_SYN];
    let u16s = [0u16, 1, 0x7fff, 0x8000, 0xffff];
    let u32s = [0u32, 1, 0x7fff_ffff, 0xffff_ffff];
    let mut n = 0u64;
    let mut distinct = std::collections::HashSet::new();
    let mut bad: Vec<(String, String, Value)> = vec![];
    for t in types {
        for &cid in &u16s {
            for &ts in &u32s {
                for &tsd in &[0u32, 0xffff_ffff] {
                    for &wnd in &u32s {
                        for &seq in &[0u16, 0xffff] {
                            for &ack in &[0u16, 0x8000, 0xffff] {
                                for (sname, sack) in &sacks {
                                    for close in &closes {
                                        let h = UtpHeader {
                                            htype: t,
                                            connection_id: cid.into(),
                                            timestamp_microseconds: ts,
                                            timestamp_difference_microseconds: tsd,
                                            wnd_size: wnd,
                                            seq_nr: seq.into(),
                                            ack_nr: ack.into(),
                                            extensions: Extensions {
                                                selective_ack: *sack,
                                                close_reason: *close,
                                            },
                                        };
                                        n += 1;
                                        let mut buf = [0u8; 64];
                                        let res = std::panic::catch_unwind(move || {
                                            let mut buf2 = buf;
                                            let r = h.serialize(&mut buf2);
                                            (r.ok(), buf2)
                                        });
                                        let (len, b2) = match res {
                                            Ok((Some(len), b2)) => (len, b2),
                                            Ok((None, _)) => {
                                                if bad.len() < 50 {
                                                    bad.push((
                                                        "serialize-error".into(),
                                                        format!("serialize failed for sack={sname} close={close:?}"),
                                                        json!({"sack": sname}),
                                                    ));
                                                }
                                                continue;
                                            }
                                            Err(_) => {
                                                bad.push(("serialize-panic".into(), format!("sack={sname}"), json!({"sack": sname})));
                                                continue;
                                            }
                                        };
                                        buf = b2;
                                        distinct.insert(hash64(&buf[..len].to_vec()));
                                        let back = UtpHeader::deserialize(&buf[..len]);
                                        let ok = match &back {
                                            Some((h2, l2)) => *h2 == h && *l2 == len,
                                            None => false,
                                        };
                                        // the independent parser must also accept what the library wrote
                                        let refok = ref_parse_header(&buf[..len])
                                            .map(|r| r.header_len == len && r.ptype == type_num(t) && r.conn_id == cid)
                                            .unwrap_or(false);
                                        if !ok || !refok {
                                            if bad.len() < 50 {
                                                let kind = if sack.is_some() && close.is_some() {
                                                    "roundtrip/two-extensions-chain-corrupted".to_string()
                                                } else if sack.map(|s| s.len() < 64).unwrap_or(false) {
                                                    "roundtrip/short-sack-length-lost".to_string()
                                                } else if !refok {
                                                    "roundtrip/reference-rejects-output".to_string()
                                                } else {
                                                    "roundtrip/header-changed".to_string()
                                                };
                                                bad.push((
                                                    kind,
                                                    format!(
                                                        "header with sack={sname} close={close:?} type={t:?}: serialized {len} bytes, parsed back {:?}",
                                                        back.as_ref().map(|(h2, l2)| (h2.extensions, *l2))
                                                    ),
                                                    json!({"engine":"exhaust","check":"wire","mode":"roundtrip","bytes": buf[..len].to_vec(), "sack": sname,
                                                           "header": {"type": type_num(t), "conn_id": cid, "ts": ts, "ts_diff": tsd, "wnd": wnd, "seq": seq, "ack": ack,
                                                           "close": close.map(|c| c.0)}}),
                                                ));
                                            }
                                        }
                                    }
                                }
                            }
                        }
                    }
                }
            }
        }
    }
    // serialize must never panic whatever the buffer size
    for sz in 0usize..48 {
        for (_, sack) in &sacks {
            let h = UtpHeader {
                extensions: Extensions { selective_ack: *sack, close_reason: Some(LibTorrentCloseReason(1)) },
                ..Default::default()
            };
            n += 1;
            let r = std::panic::catch_unwind(move || {
                let mut b = vec![0u8; sz];
                let _ = h.serialize(&mut b);
            });
            if r.is_err() {
                bad.push(("serialize-panic".into(), format!("buffer size {sz}"), json!({"engine":"exhaust","check":"wire","mode":"serialize-size","size": sz})));
            }
        }
    }
    (n, distinct.len() as u64, bad)
}

pub fn run(ctx: &Ctx) -> Outcome {
    let mut out = Outcome::default();
    let seeds: Vec<u64> = if ctx.seed == 0 { vec![0, 0x5eed] } else { vec![0, ctx.seed] };
    let max_links = ctx.tier.pick(2, 3);

    let fb = first_bytes(&seeds);
    let st = structural(max_links, &seeds);
    for (name, t, bound) in [
        ("first-byte-and-lengths", &fb, "all 256 first bytes x 4 ext bytes x 5 lengths; all lengths 0..=40 x 5 types".to_string()),
        ("extension-chain-shapes", &st, format!("chains of 0..={max_links} links, ids {EXT_IDS:?}, declared lengths {EXT_LENS:?}, last next-pointer in {{0,1,3,7}}, 0..=2 payload bytes, 5 types, truncated at EVERY byte boundary, {} filler patterns", seeds.len())),
    ] {
        let mut p = Part::mc(name);
        p.states = t.evaluated;
        p.transitions = t.evaluated;
        p.distinct_outcomes = 2 + (t.bad > 0) as u64;
        p.bound = bound;
        p.extra.insert("accepted_as_header".into(), json!(t.accepted_hdr));
        p.extra.insert("accepted_as_message".into(), json!(t.accepted_msg));
        p.extra.insert("disagreements".into(), json!(t.bad));
        p.samples.push(json!({"bytes_hex": hex(&build(2, 1, &[(1, 4), (3, 4)], 0, 0, 0)), "note": "STATE with 4-byte SACK and close reason"}));
        p.samples.push(json!({"bytes_hex": hex(&build(0, 1, &[(255, 3)], 0, 2, 0)), "note": "DATA, unknown extension of 3 bytes, 2 payload bytes"}));
        if t.accepted_hdr == 0 || t.accepted_hdr == t.evaluated {
            machinery_error(&format!("wire part {name} is vacuous: accepted {} of {}", t.accepted_hdr, t.evaluated));
        }
        if let Some((k, m, b)) = &t.first_bad {
            out.violations.push(Violation {
                property: "C11".into(),
                monitor: "parser-vs-reference".into(),
                signature: format!("parse/{k}"),
                detail: format!("{m}; bytes={}", hex(b)),
                replay: json!({"engine":"exhaust","check":"wire","mode":"parse","bytes": b}),
            });
        }
        out.parts.push(p);
    }
    let (n, distinct, bad) = roundtrip();
    let mut p = Part::mc("header-roundtrip");
    p.states = distinct;
    p.transitions = n;
    p.distinct_outcomes = 1 + bad.iter().map(|b| b.0.clone()).collect::<std::collections::BTreeSet<_>>().len() as u64;
    p.bound = "5 types x boundary values of every field x {no ext, SelectiveAck::new(..) x6, SelectiveAck::deserialize(|b| in {0,1,4,7,8}) x3 patterns} x {no close reason, 4 values}; plus serialize into every buffer size 0..48".into();
    p.samples.push(json!({"header": "ST_STATE conn_id=65535 wnd=4294967295 seq=0 ack=32768 sack=new[0,1,2] close=15"}));
    let mut seen = std::collections::BTreeSet::new();
    for (k, m, r) in bad {
        if seen.insert(k.clone()) {
            out.violations.push(Violation {
                property: "C11".into(),
                monitor: "roundtrip".into(),
                signature: k,
                detail: m,
                replay: r,
            });
        }
    }
    out.parts.push(p);
    out.rule = "C11: byte strings enumerated structurally (type/version nibble, extension chain shape, declared lengths, every truncation point); distinct = distinct byte strings (roundtrip: distinct serialisations); each is compared with an independent BEP-29 parser".into();
    out.assumptions.push("when an extension id occurs twice the last occurrence wins (BEP 29 is silent; the reference does the same)".into());
    out.assumptions.push("round-trip domain: SACK masks that fit the 64 bits the library keeps; serialize is given a buffer large enough for all extensions".into());
    out
}

/// C10's share of the byte-string enumeration: the same strings as C11's parser parts, judged only for
/// "the parsers are total" (a panic in `deserialize` runs in the dispatcher before demultiplexing, so one
/// datagram from anybody would take the whole socket down). Disagreements with the reference are C11's.
pub fn totality(ctx: &Ctx) -> Outcome {
    let mut out = Outcome::default();
    let seeds: Vec<u64> = if ctx.seed == 0 { vec![0, 0x5eed] } else { vec![0, ctx.seed] };
    let max_links = ctx.tier.pick(2, 3);
    let fb = first_bytes(&seeds);
    let st = structural(max_links, &seeds);
    for (name, t, bound) in [
        ("parser-totality:first-byte-and-lengths", &fb, "all 256 first bytes x 4 ext bytes x 5 lengths; all lengths 0..=40 x 5 types".to_string()),
        ("parser-totality:extension-chain-shapes", &st, format!("chains of 0..={max_links} links, ids {EXT_IDS:?}, declared lengths {EXT_LENS:?}, last next-pointer in {{0,1,3,7}}, 0..=2 payload bytes, 5 types, truncated at EVERY byte boundary, {} filler patterns", seeds.len())),
    ] {
        let mut p = Part::mc(name);
        p.states = t.evaluated;
        p.transitions = t.evaluated;
        p.distinct_outcomes = 2 + (t.panics > 0) as u64;
        p.bound = bound;
        p.extra.insert("accepted_as_header".into(), json!(t.accepted_hdr));
        p.extra.insert("rejected".into(), json!(t.evaluated - t.accepted_hdr));
        p.extra.insert("panics".into(), json!(t.panics));
        if t.accepted_hdr == 0 || t.accepted_hdr == t.evaluated {
            machinery_error(&format!("wire part {name} is vacuous: accepted {} of {}", t.accepted_hdr, t.evaluated));
        }
        if let Some(b) = &t.first_panic {
            out.violations.push(Violation {
                property: "C10".into(),
                monitor: "parser-totality".into(),
                signature: "parse/panic".into(),
                detail: format!("UtpHeader::deserialize / UtpMessage::deserialize panicked on {} of {} byte strings; shortest: bytes={}", t.panics, t.evaluated, hex(b)),
                replay: json!({"engine":"exhaust","check":"wire","mode":"parse","bytes": b}),
            });
        }
        out.parts.push(p);
    }
    out
}

pub fn hex(b: &[u8]) -> String {
    b.iter().map(|x| format!("{x:02x}")).collect()
}

pub fn replay(r: &Value) -> i32 {
    let bytes: Vec<u8> = r["bytes"]
        .as_array()
        .map(|a| a.iter().map(|x| x.as_u64().unwrap_or(0) as u8).collect())
        .unwrap_or_default();
    println!("bytes = {}", hex(&bytes));
    println!("reference header: {:?}", ref_parse_header(&bytes));
    println!("library   header: {:?}", std::panic::catch_unwind(|| UtpHeader::deserialize(&bytes)).map_err(|_| "PANIC"));
    match r["mode"].as_str().unwrap_or("parse") {
        "roundtrip" => {
            // bytes are what the library serialised; parsing them back and serialising again must be stable
            if let Some((h, l)) = UtpHeader::deserialize(&bytes) {
                let mut b = [0u8; 64];
                let l2 = h.serialize(&mut b).unwrap_or(0);
                println!("re-serialised {l2} bytes (parsed header length {l}): {}", hex(&b[..l2]));
                println!("NOTE: the original header is described under `header`/`sack` in the replay file; run the check to re-evaluate");
            }
            1
        }
        _ => match compare(&bytes) {
            Some((k, m)) => {
                println!("REPLAY-VIOLATION parse/{k}: {m}");
                1
            }
            None => {
                println!("REPLAY-OK");
                0
            }
        },
    }
}

/// Used by solo/duo: every datagram the library emits must be accepted by the reference parser,
/// be version 1 and carry the expected connection id. Returns an error description.
pub fn validate_emitted(b: &[u8], expect_conn_id: Option<u16>) -> Result<RefHeader, String> {
    if b.is_empty() || b[0] & 0x0f != 1 {
        return Err("emitted datagram is not version 1".into());
    }
    let (h, _) = ref_parse_message(b).ok_or_else(|| format!("reference parser rejects emitted datagram {}", hex(b)))?;
    if let Some(c) = expect_conn_id {
        if h.conn_id != c {
            return Err(format!("emitted datagram carries connection id {} but {} is owed", h.conn_id, c));
        }
    }
    Ok(h)
}
