pub mod c01;
pub mod c02;
