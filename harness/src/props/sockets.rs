//! Socket-level drivers (several connections / connect-accept event sequences): C10 (cross
//! contamination), C12, C13, C08 (table leaks).

use crate::common::*;

pub fn hostile_socket(_ctx: &Ctx) -> Outcome {
    Outcome::default()
}
