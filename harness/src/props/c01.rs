//! C01 byte-stream integrity.

use crate::common::*;
use crate::duo::{explore::*, lib, oracles, scenario::*};
use serde_json::json;

pub fn judge(_scn: &Scenario, _p: &Plan, l: &RunLog) -> Vec<oracles::Finding> {
    let mut v = oracles::integrity(l);
    v.extend(oracles::no_panic_no_bug(l));
    v.extend(oracles::emitted_wellformed(l));
    v
}

pub fn duo_part(ctx: &Ctx, out: &mut Outcome, scn: &Scenario, max_dev: usize, max_runs: u64) {
    let always = |_: &RunLog, _: &WireEventLite| true;
    let cfg = ExploreCfg { max_dev, min_k: 1, fates: fates_basic(), eligible: &always, judge: &judge, max_runs };
    let r = explore(ctx, scn, &cfg);
    let mut p = Part::fe(&format!("duo:{}", scn.name));
    p.evaluations = r.runs;
    p.distinct_nontrivial = r.distinct_traces;
    p.distinct_outcomes = r.outcome_classes.len() as u64;
    p.bound = format!("all fault plans with <= {} deviations (drop/dup/delay 15 ms/delay 300 ms at any send index >= 1); per level {:?}; up to {} sends per run", r.completed_bound, r.per_level, r.max_sends);
    if let Some(c) = &r.capped {
        p.caps_hit.push(c.clone());
        p.exhaustive = false;
    }
    p.extra.insert("outcome_classes".into(), json!(r.outcome_classes));
    p.extra.insert("datagrams_validated_by_reference_parser".into(), json!(r.datagrams_validated));
    p.samples.push(json!({"scenario": scn.name, "plan": "[] (fault-free)"}));
    if let Some((_, pl)) = r.findings.first() {
        p.samples.push(json!({"scenario": scn.name, "plan": pl}));
    } else {
        p.samples.push(json!({"scenario": scn.name, "plan": [[3, "Drop"]]}));
    }
    out.violations.extend(findings_to_violations(scn, &r.findings, &judge));
    out.parts.push(p);
}

pub fn run(ctx: &Ctx) -> Outcome {
    let mut out = Outcome::default();
    let core = lib::core();
    for (i, scn) in core.iter().enumerate() {
        let dev = match ctx.tier {
            Tier::Quick => 2,
            Tier::Thorough => if i < 2 { 4 } else { 3 },
        };
        duo_part(ctx, &mut out, scn, dev, ctx.tier.pick(60_000, 6_000_000));
    }
    // size-blackhole / EMSGSIZE path family (MTU probing active: link MTU > 576)
    let grid: Vec<(usize, Option<usize>, Option<usize>)> = match ctx.tier {
        Tier::Quick => vec![(700, None, None), (700, Some(600), None), (700, Some(640), None), (700, None, Some(620)), (1500, Some(1000), None), (1500, None, Some(1300)), (900, Some(599), None)],
        Tier::Thorough => {
            let mut g = vec![];
            for lm in [600usize, 700, 1500] {
                g.push((lm, None, None));
                let mut sz = 590;
                while sz < lm - 28 {
                    g.push((lm, Some(sz), None));
                    g.push((lm, None, Some(sz)));
                    sz += if lm == 1500 { 97 } else { 13 };
                }
            }
            g
        }
    };
    for (lm, bh, em) in grid {
        let scn = lib::mtu_transfer(lm, bh, em, 9000, false);
        duo_part(ctx, &mut out, &scn, ctx.tier.pick(1, 2), ctx.tier.pick(2_000, 200_000));
    }
    out.rule = "C01: fault plans enumerated by iterative deviation bounding over generated scenarios; distinct_nontrivial = executions with a distinct (timed) datagram+application trace".into();
    out.assumptions.push("payload is position-coded (period 251 with carry), so a wrong offset, duplicate or swap is visible in the data".into());
    out.assumptions.push("applications and sockets run on one seeded current-thread runtime under tokio's paused clock; sub-poll thread interleavings are not explored".into());
    out
}
