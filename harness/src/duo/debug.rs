//! Human-readable timeline of a run (used by replay).

use super::scenario::*;

pub fn type_name(t: u8) -> &'static str {
    match t {
        0 => "DATA",
        1 => "FIN",
        2 => "STATE",
        3 => "RESET",
        4 => "SYN",
        _ => "???",
    }
}

pub fn print_timeline(l: &RunLog) {
    #[derive(Clone)]
    enum Item<'a> {
        W(&'a WireEventLite),
        A(&'a AppEvent),
    }
    let mut items: Vec<(u64, usize, Item)> = vec![];
    for (i, w) in l.wire.iter().enumerate() {
        items.push((w.t_us, i * 2 + 1, Item::W(w)));
    }
    for (i, a) in l.app.iter().enumerate() {
        items.push((a.t_us, i * 2, Item::A(a)));
    }
    items.sort_by_key(|x| (x.0, x.1));
    for (t, _, it) in items {
        match it {
            Item::W(w) => {
                let k = if w.k == usize::MAX { "   -".to_string() } else { format!("{:4}", w.k) };
                println!(
                    "{:>10.3} ms  #{k} {} {:5} cid={} seq={} ack={} wnd={} len={}{}{}{}{}{}",
                    t as f64 / 1000.0,
                    if w.from_a { "A->B" } else { "B->A" },
                    type_name(w.ptype),
                    w.conn_id,
                    w.seq,
                    w.ack,
                    w.wnd,
                    w.payload.len(),
                    match &w.sack {
                        Some((m, n)) => format!(" sack[{n}]={:02x?}", &m[..(*n).min(8)]),
                        None => String::new(),
                    },
                    match w.fate {
                        crate::duo::sim::Fate::Deliver => String::new(),
                        f => format!(" <{f:?}>"),
                    },
                    if w.path_lost { " <path-lost>" } else { "" },
                    if w.rejected { " <EMSGSIZE>" } else { "" },
                    if w.injected { " <injected>" } else { "" },
                );
            }
            Item::A(a) => println!("{:>10.3} ms        {:?}: {:?}", t as f64 / 1000.0, a.side, a.ev),
        }
    }
    println!(
        "end={} ms apps_finished={} watchdog={} accepted={:?} read={:?} live_after={:?} streams_at_end={:?} panicked={:?}",
        l.end_us / 1000,
        l.apps_finished,
        l.watchdog_fired,
        l.accepted,
        l.read,
        l.live_after,
        l.streams_at_end,
        l.panicked
    );
}
