//! Socket-level checks: C13 (connect/accept pairing, order, backlog, slot release), C12 (isolation and
//! limits of concurrent connections), C10 (hostile traffic cannot cross-contaminate), C08 (table leaks).

use rayon::prelude::*;
use serde_json::{json, Value};
use std::collections::{BTreeMap, BTreeSet, VecDeque};
use std::net::SocketAddr;

use crate::common::*;
use crate::duo::scenario::SockCfg;
use crate::duo::sockdrv::*;

#[derive(Clone, Debug)]
pub struct SFinding {
    pub property: &'static str,
    pub monitor: &'static str,
    pub signature: String,
    pub detail: String,
}

fn sf(property: &'static str, monitor: &'static str, signature: impl Into<String>, detail: impl Into<String>) -> SFinding {
    SFinding { property, monitor, signature: signature.into(), detail: detail.into() }
}

pub fn cfg_pair(max_live: usize) -> Vec<SockCfg> {
    let mut a = SockCfg::tiny(10);
    a.randoms = vec![100, 1000, 1100, 1200, 1300, 1400, 1500, 1600, 1700, 1800, 1900];
    a.max_live = max_live;
    a.max_retx = 3;
    a.inactivity_ms = 3_000;
    let mut b = SockCfg::tiny(10);
    b.randoms = vec![300, 2000, 2100, 2200, 2300, 2400, 2500, 2600, 2700, 2800, 2900];
    b.max_live = max_live;
    b.max_retx = 3;
    b.inactivity_ms = 3_000;
    vec![a, b]
}

// ------------------------------------------------------------------------------------------------
// abstract C13 alphabet -> concrete events
// ------------------------------------------------------------------------------------------------
#[derive(Clone, Copy, Debug, PartialEq, Eq)]
pub enum A13 {
    SynFresh,
    /// a fresh SYN that arrives in the instant it is issued
    SynFreshNow,
    SynDup,
    SynBurst33,
    Accept,
    AcceptCancelLast,
    Connect,
    ConnectCancelLast,
    /// cancel the oldest still-pending connect
    ConnectCancelFirst,
    ConnectFake,
    SynAckForLastFake,
    CloseOldest,
    Settle,
}

pub fn concretize(seq: &[(A13, bool)]) -> Vec<(Ev, bool)> {
    let mut out = vec![];
    let mut fresh: u8 = 0;
    let mut last_fake: Option<u8> = None;
    let mut n_accepts: u8 = 0;
    let mut n_connects: u8 = 0;
    let mut burst_base: u8 = 100;
    let mut cancelled: BTreeSet<u8> = BTreeSet::new();
    for (a, same) in seq {
        let ev = match a {
            A13::SynFresh => {
                let f = fresh;
                fresh += 1;
                last_fake = Some(f);
                Ev::RawSyn { to: 1, fake: f }
            }
            A13::SynFreshNow => {
                let f = fresh;
                fresh += 1;
                last_fake = Some(f);
                Ev::RawSynNow { to: 1, fake: f }
            }
            A13::SynDup => match last_fake {
                Some(f) => Ev::RawSyn { to: 1, fake: f },
                None => continue,
            },
            A13::SynBurst33 => {
                let b = burst_base;
                burst_base = burst_base.wrapping_add(40);
                Ev::RawSynBurst { to: 1, base: b, n: 33 }
            }
            A13::Accept => {
                n_accepts += 1;
                Ev::Accept { sock: 1 }
            }
            A13::AcceptCancelLast => {
                if n_accepts == 0 {
                    continue;
                }
                Ev::AcceptCancel(n_accepts - 1)
            }
            A13::Connect => {
                n_connects += 1;
                Ev::Connect { from: 0, to: 1 }
            }
            A13::ConnectFake => {
                n_connects += 1;
                Ev::ConnectFake { from: 0, fake: 50 }
            }
            A13::ConnectCancelLast => {
                match (0..n_connects).rev().find(|i| !cancelled.contains(i)) {
                    Some(i) => {
                        cancelled.insert(i);
                        Ev::ConnectCancel(i)
                    }
                    None => continue,
                }
            }
            A13::ConnectCancelFirst => {
                match (0..n_connects).find(|i| !cancelled.contains(i)) {
                    Some(i) => {
                        cancelled.insert(i);
                        Ev::ConnectCancel(i)
                    }
                    None => continue,
                }
            }
            A13::SynAckForLastFake => Ev::RawSynAck { from: 0, fake: 50 },
            A13::CloseOldest => Ev::CloseOldest,
            A13::Settle => Ev::Settle,
        };
        out.push((ev, *same && !out.is_empty()));
    }
    out
}

// ------------------------------------------------------------------------------------------------
// C13 oracle: FIFO reference model
// ------------------------------------------------------------------------------------------------
#[derive(Clone, Debug, PartialEq, Eq, PartialOrd, Ord)]
enum Who {
    Fake(SocketAddr),
    Real(usize), // connect index
}

pub fn judge_c13(script: &SockScript, l: &SockLog, check_order: bool) -> Vec<SFinding> {
    let mut v = vec![];
    if let Some(m) = crate::duo::oracles::first_wrong_conn_id(l.wire.iter().enumerate().map(|(i, w)| (l.wire_from[i], l.wire_to[i], w.ptype, w.conn_id, w.injected, w.parse_ok))) {
        v.push(sf("C11", "emitted-wellformed", "emitted/wrong-connection-id", m));
    }
    if let Some(w) = l.wire.iter().find(|w| !w.injected && !w.parse_ok) {
        v.push(sf("C11", "emitted-wellformed", "emitted/unparseable", format!("send #{} at {} us is rejected by the reference parser", w.k, w.t_us)));
    }
    if let Some(p) = &l.panicked {
        v.push(sf("C10", "panic", "panic/in-socket-run", p.clone()));
        return v;
    }
    let listener = sock_addr(1);
    let lat = script.latency_us;
    // timeline: SYN arrivals at the listener, accept calls, accept cancels
    #[derive(Clone, Debug)]
    enum T {
        Syn(Who, u16, u16), // who, conn_id, seq
        Accept(usize),
        Cancel(usize),
    }
    let mut tl: Vec<(u64, usize, T)> = vec![];
    let mut order = 0usize;
    // map real connects' SYNs by time order to connect index (connect i emits its SYN when processed)
    let mut real_syn_seen = 0usize;
    for (i, w) in l.wire.iter().enumerate() {
        if l.wire_to[i] == listener && w.ptype == 4 && !w.rejected {
            let who = if w.injected {
                Who::Fake(l.wire_from[i])
            } else {
                // the k-th real SYN belongs to the k-th connect that was not cancelled before emitting
                let idx = l.connects.iter().enumerate().filter(|(_, c)| c.target == Some(listener)).map(|(i, _)| i).nth(real_syn_seen);
                real_syn_seen += 1;
                match idx {
                    Some(i) => Who::Real(i),
                    None => continue,
                }
            };
            let immediate = w.injected && script.events.iter().any(|(e, _)| matches!(e, Ev::RawSynNow { fake, .. } if fake_addr(*fake) == l.wire_from[i]));
            tl.push((w.t_us + if immediate { 0 } else { lat }, order, T::Syn(who, w.conn_id, w.seq)));
            order += 1;
        }
    }
    for (j, a) in l.accepts.iter().enumerate() {
        if a.sock == 1 {
            tl.push((a.issued_us, order, T::Accept(j)));
            order += 1;
            if let Done::Cancelled = a.done {
                tl.push((a.done_us.unwrap_or(a.issued_us), order, T::Cancel(j)));
                order += 1;
            }
        }
    }
    tl.sort_by_key(|x| (x.0, x.1));
    // the reference: two FIFO queues, matched head to head; backlog of 32
    let mut syns: VecDeque<(Who, u16, u16)> = VecDeque::new();
    let mut acceptors: VecDeque<usize> = VecDeque::new();
    let mut expected: BTreeMap<usize, Who> = BTreeMap::new();
    let mut refused: Vec<(Who, u16, u16)> = vec![];
    let mut known: BTreeSet<(Who, u16)> = BTreeSet::new(); // pending or matched (duplicates are ignored)
    let mut ambiguous = false;
    let mut i = 0;
    while i < tl.len() {
        // all entries of one instant are enqueued first, then matched
        let t = tl[i].0;
        let mut j = i;
        let mut kinds = BTreeSet::new();
        while j < tl.len() && tl[j].0 == t {
            j += 1;
        }
        // within one instant: acceptor calls and cancellations first (their net effect), then the
        // arrivals in order, matching head to head after each
        for e in &tl[i..j] {
            match &e.2 {
                T::Accept(a) => {
                    kinds.insert(1);
                    acceptors.push_back(*a);
                }
                T::Cancel(a) => {
                    kinds.insert(2);
                    acceptors.retain(|x| x != a);
                }
                _ => {}
            }
        }
        while !syns.is_empty() && !acceptors.is_empty() {
            let s = syns.pop_front().unwrap();
            let a = acceptors.pop_front().unwrap();
            expected.insert(a, s.0);
        }
        for e in &tl[i..j] {
            if let T::Syn(who, cid, seq) = &e.2 {
                kinds.insert(0);
                if known.contains(&(who.clone(), *cid)) {
                    // duplicate of a pending or live request
                } else if syns.len() >= 32 && acceptors.is_empty() {
                    refused.push((who.clone(), *cid, *seq));
                } else {
                    known.insert((who.clone(), *cid));
                    syns.push_back((who.clone(), *cid, *seq));
                }
                while !syns.is_empty() && !acceptors.is_empty() {
                    let s = syns.pop_front().unwrap();
                    let a = acceptors.pop_front().unwrap();
                    expected.insert(a, s.0);
                }
            }
        }
        if kinds.contains(&2) && kinds.contains(&0) {
            ambiguous = true; // a cancellation in the same instant as an arrival / call: either outcome is fine
        }
        i = j;
    }
    // actual pairing
    let mut actual: BTreeMap<usize, Who> = BTreeMap::new();
    for (j, a) in l.accepts.iter().enumerate() {
        if let Done::Ok { remote, token, .. } = &a.done {
            let who = match token {
                Some(t) => Who::Real(((*t - 0xC0DE_0000_0000) / 0x0101) as usize),
                None => {
                    if *remote == sock_addr(0) {
                        // a real connector whose token did not arrive (e.g. its connect was cancelled): identify by order
                        Who::Real(usize::MAX)
                    } else {
                        Who::Fake(*remote)
                    }
                }
            };
            actual.insert(j, who);
        }
    }
    // no connector is handed out twice
    let mut seen = BTreeSet::new();
    for (j, w) in &actual {
        if *w != Who::Real(usize::MAX) && !seen.insert(w.clone()) {
            v.push(sf("C13", "pairing", "accept/same-request-accepted-twice", format!("accept #{j} received {w:?}, which another accept had already received (a duplicate SYN must never yield a second stream)")));
        }
    }
    // pairing of real connects: a successful connect is matched by exactly one accepted stream carrying its token
    for (ci, c) in l.connects.iter().enumerate() {
        if let (Done::Ok { .. }, Some(t)) = (&c.done, c.target) {
            if t == listener {
                let n = actual.values().filter(|w| **w == Who::Real(ci)).count();
                let acceptors_available = l.accepts.iter().filter(|a| a.sock == 1 && !matches!(a.done, Done::Cancelled)).count();
                let requests_before: usize = expected.len();
                let _ = requests_before;
                if n > 1 {
                    v.push(sf("C13", "pairing", "pairing/connect-matched-by-two-streams", format!("connect #{ci} succeeded and {n} accepted streams carry its token")));
                }
                if n == 0 && expected.values().any(|w| *w == Who::Real(ci)) && acceptors_available > 0 {
                    v.push(sf("C13", "pairing", "pairing/connect-succeeded-without-accepted-stream", format!("connect #{ci} succeeded, the reference pairs it with an accept, but no accepted stream carries its token")));
                }
            }
        }
    }
    for a in l.accepts.iter() {
        if let Done::Ok { payload_ok: false, .. } = a.done {
            v.push(sf("C12", "isolation", "isolation/accepted-stream-carries-foreign-bytes", "an accepted stream delivered bytes that are not its connector's coded payload".to_string()));
        }
    }
    if !check_order && !ambiguous && l.streams_at_end.get(1).copied().unwrap_or(0) == 0 {
        // under a connection limit the reference does not know when slots free up; but at the end of the
        // run every connection is gone and every slot is free: an accept that is still pending while a
        // request it is owed (from a silent peer, which never goes away) was neither handed out nor
        // refused has been starved
        for (j, want) in &expected {
            let still_pending = matches!(l.accepts[*j].done, Done::Pending);
            let handed_elsewhere = actual.values().any(|w| w == want);
            let was_refused = refused.iter().any(|(w, _, _)| w == want);
            if still_pending && !handed_elsewhere && !was_refused && matches!(want, Who::Fake(_)) {
                v.push(sf(
                    "C13",
                    "fifo-order",
                    "accept/starved-after-the-limit-was-freed",
                    format!("accept #{j} is still pending at the end of the run, when every connection is gone and every slot is free, although request {want:?} had been queued for it"),
                ));
            }
        }
    }
    if check_order && !ambiguous {
        for (j, want) in &expected {
            match actual.get(j) {
                Some(got) if got == want || *got == Who::Real(usize::MAX) => {}
                Some(got) => v.push(sf(
                    "C13",
                    "fifo-order",
                    "accept/not-in-arrival-order",
                    format!("accept #{j} (call order) received {got:?}; in arrival order it is owed {want:?}"),
                )),
                None => {
                    if !matches!(l.accepts[*j].done, Done::Cancelled) {
                        v.push(sf(
                            "C13",
                            "fifo-order",
                            "accept/pending-request-not-handed-out",
                            format!("accept #{j} is still {:?} although request {want:?} was pending for it", l.accepts[*j].done),
                        ));
                    }
                }
            }
        }
        for (j, got) in &actual {
            if !expected.contains_key(j) {
                v.push(sf("C13", "fifo-order", "accept/unexpected-match", format!("accept #{j} received {got:?} although the reference has no request for it")));
            }
        }
        // the backlog: excess SYNs are refused with a RESET acknowledging the SYN's sequence number
        for (who, cid, seq) in &refused {
            if let Who::Fake(addr) = who {
                let rst = l.wire.iter().enumerate().any(|(i, w)| l.wire_to[i] == *addr && l.wire_from[i] == listener && w.ptype == 3 && w.ack == *seq && w.conn_id == *cid);
                if !rst {
                    v.push(sf("C13", "backlog", "backlog/excess-syn-not-refused-with-reset", format!("SYN from {addr} (conn id {cid}, seq {seq}) exceeded the backlog of 32 but no ST_RESET with ack_nr = {seq} was sent to it")));
                }
            }
        }
        for (i, w) in l.wire.iter().enumerate() {
            if l.wire_from[i] == listener && w.ptype == 3 {
                let justified = refused.iter().any(|(who, cid, seq)| matches!(who, Who::Fake(a) if *a == l.wire_to[i]) && *cid == w.conn_id && *seq == w.ack);
                if !justified {
                    v.push(sf("C13", "backlog", "backlog/reset-for-request-within-backlog", format!("ST_RESET sent to {} (conn id {}) although the backlog had room", l.wire_to[i], w.conn_id)));
                }
            }
        }
    }
    // connect slots: a connect fails with an error only if 4 are already pending to that address
    {
        let mut pending: Vec<(usize, u64)> = vec![]; // (connect idx, issued)
        for (ci, c) in l.connects.iter().enumerate() {
            // connects that ended before this one was issued no longer hold a slot
            pending.retain(|(pi, _)| {
                let p = &l.connects[*pi];
                p.target == c.target && p.done_us.map(|d| d > c.issued_us).unwrap_or(true)
            });
            let in_use = pending.len();
            if let Done::Err(e) = &c.done {
                let limit_reached = l.max_streams_seen.first().copied().unwrap_or(0) >= script.cfgs[0].max_live;
                if in_use < 4 && !limit_reached && !e.contains("too many") {
                    v.push(sf(
                        "C13",
                        "slot-release",
                        "connect/fails-although-slots-are-free",
                        format!("connect #{ci} to {:?} failed with '{e}' while only {in_use} earlier connects to that address were still pending (4 slots)", c.target),
                    ));
                }
            }
            pending.push((ci, c.issued_us));
        }
    }
    // C08: once everything is closed and settled, table entries correspond to live connection objects
    let total_streams: usize = l.streams_at_end.iter().sum();
    if total_streams > l.live_at_end {
        v.push(sf(
            "C08",
            "slot-release",
            "termination/streams-table-entry-without-connection",
            format!("at the end {} connection object(s) are alive but the sockets' tables hold {:?} entries: an entry (and its share of the connection limit) leaked", l.live_at_end, l.streams_at_end),
        ));
    }
    for (i, m) in l.max_streams_seen.iter().enumerate() {
        if *m > script.cfgs[i].max_live {
            v.push(sf("C12", "limit", "limit/streams-table-exceeds-max-live-vsocks", format!("socket {i}: the connection table held {m} entries, max_live_vsocks is {}", script.cfgs[i].max_live)));
        }
    }
    v
}

fn seqs_over(alpha: &[A13], len: usize) -> Vec<Vec<A13>> {
    let mut out: Vec<Vec<A13>> = vec![vec![]];
    let mut frontier: Vec<Vec<A13>> = vec![vec![]];
    for _ in 0..len {
        let mut next = vec![];
        for s in &frontier {
            for a in alpha {
                let mut n = s.clone();
                n.push(*a);
                next.push(n);
            }
        }
        out.extend(next.iter().cloned());
        frontier = next;
    }
    out
}

pub fn replay_json(script: &SockScript, kind: &str) -> Value {
    json!({"engine": "sock", "kind": kind, "script": script})
}

pub fn explore_c13(ctx: &Ctx, name: &str, alpha: &[A13], len: usize, max_live: usize, grouped: bool, seeds: &[u64], out: &mut Outcome) {
    let seqs = seqs_over(alpha, len);
    let mut cases: Vec<(Vec<(A13, bool)>, u64)> = vec![];
    for s in &seqs {
        if s.is_empty() {
            continue;
        }
        if !grouped {
            cases.push((s.iter().map(|a| (*a, false)).collect(), seeds[0]));
        } else {
            // exactly one pair of adjacent events shares an instant; every seed
            for g in 1..s.len() {
                for &seed in seeds {
                    cases.push((s.iter().enumerate().map(|(i, a)| (*a, i == g)).collect(), seed));
                }
            }
        }
    }
    let t0 = std::time::Instant::now();
    let budget = ctx.budget_left();
    let results: Vec<Option<(Vec<SFinding>, u64, usize)>> = cases
        .par_iter()
        .map(|(s, seed)| {
            if t0.elapsed().as_secs_f64() > budget - 3.0 {
                return None;
            }
            let script = SockScript { cfgs: cfg_pair(max_live), events: concretize(s), rng_seed: *seed, latency_us: 10_000, plan: vec![] };
            let l = run(&script);
            let fs = judge_c13(&script, &l, max_live >= 32);
            Some((fs, l.trace_hash, l.arms.len()))
        })
        .collect();
    let mut p = Part::fe(name);
    let mut seen = std::collections::HashSet::new();
    let mut best: BTreeMap<String, (SFinding, Vec<(A13, bool)>, u64)> = BTreeMap::new();
    let mut skipped = 0u64;
    for ((s, seed), r) in cases.iter().zip(results) {
        match r {
            None => skipped += 1,
            Some((fs, h, _)) => {
                p.evaluations += 1;
                if seen.insert(h) {
                    p.distinct_nontrivial += 1;
                }
                for f in fs {
                    let e = best.entry(format!("{}|{}", f.property, f.signature)).or_insert((f.clone(), s.clone(), *seed));
                    if s.len() < e.1.len() {
                        *e = (f, s.clone(), *seed);
                    }
                }
            }
        }
    }
    p.distinct_outcomes = p.distinct_nontrivial.min(1000);
    p.bound = format!(
        "all sequences of <= {len} socket events over {:?}, max_live_vsocks={max_live}, {}",
        alpha,
        if grouped { format!("with one adjacent pair issued in the same instant, x {} select! seeds", seeds.len()) } else { "each event issued after everything runnable has run".into() }
    );
    if skipped > 0 {
        p.caps_hit.push(format!("time budget: {skipped} of {} cases not executed", cases.len()));
        p.exhaustive = false;
    }
    p.samples.push(json!(["SynFresh", "SynFresh", "Accept", "Accept"]));
    for (_, (f, s, seed)) in best {
        let script = SockScript { cfgs: cfg_pair(max_live), events: concretize(&s), rng_seed: seed, latency_us: 10_000, plan: vec![] };
        for _ in 0..2 {
            let l = run(&script);
            if !judge_c13(&script, &l, max_live >= 32).iter().any(|g| g.signature == f.signature) {
                machinery_error(&format!("socket finding {} did not reproduce for {:?} seed {}", f.signature, s, seed));
            }
        }
        out.violations.push(Violation {
            property: f.property.to_string(),
            monitor: f.monitor.to_string(),
            signature: f.signature.clone(),
            detail: format!("[events {:?} seed {seed}] {}", s, f.detail),
            replay: replay_json(&script, "c13"),
        });
    }
    out.parts.push(p);
}

/// Connections in both directions between two sockets whose first connection ids are equal / adjacent
/// (so that the id chooser has to step over the peer's connections), overlapping connects to one peer:
/// every connect with a waiting accept completes and each pair is wired to each other.
fn both_directions_c13(ctx: &Ctx, out: &mut Outcome) {
    let alpha: Vec<Ev> = vec![Ev::Connect { from: 0, to: 1 }, Ev::Connect { from: 1, to: 0 }, Ev::Accept { sock: 0 }, Ev::Accept { sock: 1 }, Ev::Settle];
    let len = ctx.tier.pick(6usize, 7usize);
    let mut p = Part::fe("sock:c13-both-directions");
    let mut seen = std::collections::HashSet::new();
    for bases in [[500u16, 500u16], [500, 501], [501, 500], [500, 502], [500, 498]] {
        let cfgs = cfg_n(2, 64, &bases);
        let mut seqs: Vec<Vec<usize>> = vec![];
        let mut frontier: Vec<Vec<usize>> = vec![vec![]];
        for _ in 0..len {
            let mut next = vec![];
            for s in &frontier {
                for a in 0..alpha.len() {
                    let mut n = s.clone();
                    n.push(a);
                    next.push(n);
                }
            }
            seqs.extend(next.iter().cloned());
            frontier = next;
        }
        // connects back to back in one instant where they are adjacent in the sequence
        let cases: Vec<Vec<(Ev, bool)>> = seqs.iter().map(|s| s.iter().enumerate().map(|(k, i)| (alpha[*i].clone(), k > 0 && *i < 2 && s[k - 1] < 2)).collect()).collect();
        let results: Vec<(Vec<SFinding>, u64)> = cases
            .par_iter()
            .map(|ev| {
                let script = SockScript { cfgs: cfgs.clone(), events: ev.clone(), rng_seed: 1, latency_us: 10_000, plan: vec![] };
                let l = run(&script);
                let fs: Vec<SFinding> = judge_c12(&script, &l)
                    .into_iter()
                    .filter(|f| matches!(f.signature.as_str(), "ids/receive-key-shared-by-two-connections" | "connect/never-completes-under-concurrency" | "connect/fails-under-concurrency" | "isolation/two-streams-carry-the-same-connection"))
                    .map(|f| sf("C13", "pairing", format!("pairing/{}", f.signature.split('/').nth(1).unwrap_or("")), f.detail))
                    .collect();
                (fs, l.trace_hash)
            })
            .collect();
        for (ev, (fs, h)) in cases.iter().zip(results) {
            p.evaluations += 1;
            if seen.insert(h) {
                p.distinct_nontrivial += 1;
            }
            for f in fs {
                if !out.violations.iter().any(|v| v.signature == f.signature) {
                    let script = SockScript { cfgs: cfgs.clone(), events: ev.clone(), rng_seed: 1, latency_us: 10_000, plan: vec![] };
                    out.violations.push(Violation { property: f.property.to_string(), monitor: f.monitor.to_string(), signature: f.signature.clone(), detail: format!("[both-directions ids {:?} events {:?}] {}", bases, ev, f.detail), replay: replay_json(&script, "c12") });
                }
            }
        }
    }
    p.distinct_outcomes = p.distinct_nontrivial.min(1000);
    p.bound = format!("all sequences of <= {len} events over connects in both directions, accepts on both sockets and a drain, adjacent connects issued in one instant, x 5 pairs of first connection ids (equal, +-1, +-2)");
    p.samples.push(json!(["Connect 1->0", "Accept 0", "Connect 0->1", "Connect 0->1", "Accept 1", "Accept 1"]));
    out.parts.push(p);
}

pub fn c13(ctx: &Ctx) -> Outcome {
    let mut out = Outcome::default();
    use A13::*;
    let len = ctx.tier.pick(6, 9);
    explore_c13(ctx, "sock:c13-order", &[SynFresh, SynDup, Accept, AcceptCancelLast, Settle, CloseOldest], len, 64, false, &[1], &mut out);
    explore_c13(ctx, "sock:c13-connect", &[Connect, ConnectCancelLast, Accept, AcceptCancelLast, CloseOldest, Settle], len, 64, false, &[1], &mut out);
    explore_c13(ctx, "sock:c13-backlog", &[SynBurst33, SynFresh, Accept, Settle], ctx.tier.pick(5, 6), 64, false, &[1], &mut out);
    explore_c13(ctx, "sock:c13-slots", &[ConnectFake, ConnectCancelLast, ConnectCancelFirst, SynAckForLastFake], ctx.tier.pick(8, 9), 64, false, &[1], &mut out);
    explore_c13(ctx, "sock:c13-limit2", &[SynFresh, Connect, Accept, AcceptCancelLast, CloseOldest, Settle], ctx.tier.pick(6, 7), 2, false, &[1], &mut out);
    // the limit reached and freed with a request and an accept both parked (nothing else happens afterwards)
    explore_c13(ctx, "sock:c13-limit1", &[SynFresh, Accept, AcceptCancelLast, CloseOldest, Settle], ctx.tier.pick(7, 8), 1, false, &[1], &mut out);
    both_directions_c13(ctx, &mut out);
    let seeds: Vec<u64> = (0..ctx.tier.pick(8u64, 32u64)).collect();
    explore_c13(ctx, "sock:c13-ties", &[SynFreshNow, Accept, AcceptCancelLast, Settle], ctx.tier.pick(6, 7), 64, true, &seeds, &mut out);
    out.rule = "C13: every sequence of socket events up to the stated length (events separated by a drain, or one adjacent pair in the same instant under every select! seed of a set); reference = two FIFO queues (pending requests <= 32, pending acceptors); distinct_nontrivial = executions with distinct timed traces".into();
    out.assumptions.push("pending requests are raw SYNs from silent fake peers (identified by remote address) or real connects (identified by the token the connector writes first)".into());
    out.assumptions.push("a cancellation in the same instant as an arrival or a call is ambiguous: only leak / duplicate oracles apply there".into());
    out
}

/// C08: accept / connect cancellations and closes must not leak table entries
pub fn c08_leaks(ctx: &Ctx) -> Outcome {
    let mut out = Outcome::default();
    use A13::*;
    explore_c13(ctx, "sock:c08-leaks", &[SynFresh, Accept, AcceptCancelLast, Connect, ConnectCancelLast, CloseOldest, Settle], ctx.tier.pick(4, 5), 64, false, &[1], &mut out);
    let seeds: Vec<u64> = (0..ctx.tier.pick(4u64, 16u64)).collect();
    explore_c13(ctx, "sock:c08-leaks-ties", &[SynFreshNow, Accept, AcceptCancelLast, Connect], ctx.tier.pick(3, 4), 64, true, &seeds, &mut out);
    out
}

// ------------------------------------------------------------------------------------------------
// C12: concurrent connections on one socket are isolated and bounded
// ------------------------------------------------------------------------------------------------
fn cfg_n(n: usize, max_live: usize, id_bases: &[u16]) -> Vec<SockCfg> {
    (0..n)
        .map(|i| {
            let mut c = SockCfg::tiny(10);
            let b = id_bases[i];
            c.randoms = vec![b, 1000 + 1000 * i as u16, 1100 + 1000 * i as u16, 1200 + 1000 * i as u16, 1300 + 1000 * i as u16, 1400 + 1000 * i as u16, 1500 + 1000 * i as u16];
            c.max_live = max_live;
            c.max_retx = 4;
            c.inactivity_ms = 3_000;
            c
        })
        .collect()
}

/// Two sockets open connections to each other at the same time (each SYN is sent before the sender
/// has the other's connection in its table) with equal or adjacent connection ids: neither side can
/// know the other's choice; a limitation of uTP's independently chosen ids, not of the chooser.
fn crossing_syns_with_adjacent_ids(l: &SockLog) -> bool {
    let syns: Vec<(usize, SocketAddr, SocketAddr, u16, u64)> = l.wire.iter().enumerate().filter(|(_, w)| w.ptype == 4 && !w.injected).map(|(i, w)| (i, l.wire_from[i], l.wire_to[i], w.conn_id, w.t_us)).collect();
    for a in &syns {
        for b in &syns {
            if a.0 >= b.0 || a.1 != b.2 || a.2 != b.1 {
                continue;
            }
            let d = (a.3 as i32 - b.3 as i32).rem_euclid(65536);
            let close = d <= 2 || d >= 65534;
            if !close {
                continue;
            }
            // b's sender (= a's acceptor) had not yet answered a's SYN when it sent b
            let a_answered_at = l.wire.iter().enumerate().filter(|(i, w)| w.ptype == 2 && !w.injected && l.wire_from[*i] == a.2 && l.wire_to[*i] == a.1 && w.conn_id == a.3).map(|(_, w)| w.t_us).min();
            if a_answered_at.map(|t| b.4 <= t).unwrap_or(true) {
                return true;
            }
        }
    }
    false
}

fn judge_c12(script: &SockScript, l: &SockLog) -> Vec<SFinding> {
    let mut v = vec![];
    let crossing = crossing_syns_with_adjacent_ids(l);
    if let Some(p) = &l.panicked {
        v.push(sf("C10", "panic", "panic/in-socket-run", p.clone()));
        return v;
    }
    // the limit
    for (i, m) in l.max_streams_seen.iter().enumerate() {
        if *m > script.cfgs[i].max_live {
            v.push(sf("C12", "limit", "limit/streams-table-exceeds-max-live-vsocks", format!("socket {i}: the connection table held {m} entries, max_live_vsocks is {}", script.cfgs[i].max_live)));
        }
    }
    // a live connection object always has its entry in the connection table (without it no datagram reaches it)
    for (t, live, streams) in &l.table_probes {
        if live > streams {
            v.push(sf(
                "C12",
                "isolation",
                "isolation/live-connection-without-table-entry",
                format!("at {t} us {live} connection object(s) are alive but the socket's connection table holds {streams} entries: the clean-up request of a dead connection removed the entry of the connection that re-used its key"),
            ));
        }
    }
    // a connection accepted in (or after) the instant an older one with the same key died must not be taken
    // down by the older one's clean-up: a silent peer cannot end it within 30 ms, nothing else may
    if let (Some(first_death), Some((t_probe, live, _))) = (l.lifecycle.iter().find(|(_, created, _, _)| !*created).map(|(t, _, _, _)| *t), l.table_probes.first()) {
        let accepted_since: usize = l.accepts.iter().filter(|a| matches!(a.done, Done::Ok { .. }) && a.done_us.map(|t| t >= first_death).unwrap_or(false)).count();
        if accepted_since > *live && !l.reuse_hit.is_empty() {
            v.push(sf(
                "C12",
                "isolation",
                "isolation/new-connection-taken-down-by-clean-up-of-a-dead-one",
                format!("{accepted_since} connection(s) were accepted at or after {first_death} us (the instant an older connection with the same address and id died); at {t_probe} us only {live} connection object(s) are alive: the older connection's clean-up request removed the new connection's table entry and it ended at once"),
            ));
        }
    }
    // every stream carries its own bytes
    for (i, c) in l.connects.iter().enumerate() {
        if let Done::Ok { payload_ok: false, .. } = c.done {
            v.push(sf("C12", "isolation", "isolation/connector-read-foreign-bytes", format!("connect #{i}: the bytes read back are not the ones owed to this connection")));
        }
    }
    for (i, a) in l.accepts.iter().enumerate() {
        if let Done::Ok { payload_ok: false, .. } = a.done {
            v.push(sf("C12", "isolation", "isolation/accepted-stream-carries-foreign-bytes", format!("accept #{i}: the stream delivered bytes that are not its connector's coded payload")));
        }
    }
    // tokens: no two accepted streams carry the same token; every token belongs to a successful connect
    let mut toks = BTreeSet::new();
    for (i, a) in l.accepts.iter().enumerate() {
        if let Done::Ok { token: Some(t), .. } = a.done {
            if !toks.insert(t) {
                v.push(sf("C12", "isolation", "isolation/two-streams-carry-the-same-connection", format!("accept #{i} carries token {t:#x}, which another accepted stream carries too")));
            }
        }
    }
    // connection ids in use between one ordered address pair are unique among connections that overlap in time:
    // every non-SYN datagram from X to Y with id k belongs to the connection whose handshake announced k for that direction
    {
        // connections from handshakes: SYN (X->Y, id c) answered by STATE (Y->X, id c)
        let mut conns: Vec<(SocketAddr, SocketAddr, u16, u64)> = vec![]; // (connector, acceptor, c, t)
        let mut syn_no: BTreeMap<(SocketAddr, SocketAddr), usize> = BTreeMap::new();
        for (i, w) in l.wire.iter().enumerate() {
            if w.ptype == 4 && !w.injected && !w.rejected {
                // by design the fifth concurrent connect to one address fails at once although its SYN has gone
                // out, and the next connect takes the same id: the k-th SYN of a socket towards a peer belongs
                // to its k-th connect call there; an attempt that failed is not a connection
                let k = syn_no.entry((l.wire_from[i], l.wire_to[i])).or_insert(0);
                let call = l.connects.iter().filter(|c| c.target == Some(l.wire_to[i]) && sock_addr(c.sock) == l.wire_from[i]).nth(*k);
                *k += 1;
                if matches!(call.map(|c| &c.done), Some(Done::Err(_))) {
                    continue;
                }
                conns.push((l.wire_from[i], l.wire_to[i], w.conn_id, w.t_us));
            }
        }
        // receive keys: at acceptor Y: (X, c+1); at connector X: (Y, c)
        let mut keys: BTreeMap<(SocketAddr, SocketAddr, u16), Vec<usize>> = BTreeMap::new(); // (at, from, id) -> connection indices
        for (ci, (x, y, c, _)) in conns.iter().enumerate() {
            keys.entry((*y, *x, c.wrapping_add(1))).or_default().push(ci);
            keys.entry((*x, *y, *c)).or_default().push(ci);
        }
        for ((at, from, id), cs) in &keys {
            if cs.len() > 1 {
                // a clash only matters while both connections exist at that socket: the lifetime of each
                // connection's object there (hook lifecycle log: created when the handshake completes,
                // destroyed when the connection task ends); ids may be reused once a connection is gone
                let lifetime = |ci: usize| -> Option<(u64, u64)> {
                    let (x, y, c, t_syn) = conns[ci];
                    // object at `at`: the connector's sends with c+1 to y, the acceptor's with c to x
                    let key = if *at == x { (y, c.wrapping_add(1)) } else { (x, c) };
                    let created = l.lifecycle.iter().find(|e| e.1 && (e.2, e.3) == key && e.0 >= t_syn)?.0;
                    let dropped = l.lifecycle.iter().find(|e| !e.1 && (e.2, e.3) == key && e.0 >= created).map(|e| e.0).unwrap_or(u64::MAX);
                    Some((created, dropped))
                };
                let spans: Vec<(usize, (u64, u64))> = cs.iter().filter_map(|ci| lifetime(*ci).map(|s| (*ci, s))).collect();
                let mut live: Vec<usize> = vec![];
                for (i, (ci, a)) in spans.iter().enumerate() {
                    if spans.iter().enumerate().any(|(j, (_, b))| i != j && a.0 < b.1 && b.0 < a.1) {
                        live.push(*ci);
                    }
                }
                if live.len() > 1 {
                    v.push(sf(
                        "C12",
                        "id-uniqueness",
                        if crossing { "ids/simultaneous-open-with-adjacent-ids" } else { "ids/receive-key-shared-by-two-connections" },
                        format!("socket {at} demultiplexes datagrams from {from} with connection id {id} to {} connections at once", live.len()),
                    ));
                }
            }
        }
    }
    // every connect whose peer had an acceptor and room under the limits must complete
    let mut accepts_avail: BTreeMap<u8, usize> = BTreeMap::new();
    for a in &l.accepts {
        if !matches!(a.done, Done::Cancelled) {
            *accepts_avail.entry(a.sock).or_insert(0) += 1;
        }
    }
    let total_conn = l.connects.len();
    let min_limit = script.cfgs.iter().map(|c| c.max_live).min().unwrap_or(128);
    for (i, c) in l.connects.iter().enumerate() {
        match &c.done {
            Done::Err(e) => {
                let limit_possible = total_conn > min_limit;
                // the per-address connecting slots (4): a fifth concurrent connect to one address fails
                let earlier_pending = l.connects[..i].iter().filter(|o| o.target == c.target && o.done_us.map(|d| d > c.issued_us).unwrap_or(true)).count();
                if !(limit_possible && (e.contains("too many"))) && earlier_pending < 4 {
                    v.push(sf("C12", "service", "connect/fails-under-concurrency", format!("connect #{i} to {:?} failed with '{e}' ({} connects in the run, smallest limit {})", c.target, total_conn, min_limit)));
                }
            }
            Done::Pending => {
                let target_sock = (0..script.cfgs.len() as u8).find(|s| Some(sock_addr(*s)) == c.target);
                let acc = target_sock.and_then(|s| accepts_avail.get(&s).copied()).unwrap_or(0);
                let completed_to_target = l.connects.iter().filter(|o| o.target == c.target && matches!(o.done, Done::Ok { .. })).count();
                // an abandoned connect's SYN stays queued at the listener (nothing tells it) and uses up an accept
                let abandoned_to_target = l.connects.iter().filter(|o| o.target == c.target && matches!(o.done, Done::Cancelled)).count();
                if total_conn <= min_limit && acc > completed_to_target + abandoned_to_target {
                    v.push(sf("C12", "service", if crossing { "ids/simultaneous-open-with-adjacent-ids" } else { "connect/never-completes-under-concurrency" }, format!("connect #{i} to {:?} is still pending at the end although its peer had a free accept call and no limit was reached", c.target)));
                }
            }
            _ => {}
        }
    }
    // leaks
    let total_streams: usize = l.streams_at_end.iter().sum();
    if total_streams > l.live_at_end {
        v.push(sf("C08", "slot-release", "termination/streams-table-entry-without-connection", format!("{} live connection objects but tables hold {:?}", l.live_at_end, l.streams_at_end)));
    }
    v
}

pub fn c12(ctx: &Ctx) -> Outcome {
    let mut out = Outcome::default();
    // event alphabets over 2 and 3 sockets
    let alpha2: Vec<Ev> = vec![Ev::Connect { from: 0, to: 1 }, Ev::Connect { from: 1, to: 0 }, Ev::Accept { sock: 0 }, Ev::Accept { sock: 1 }, Ev::CloseOldest, Ev::Settle];
    let alpha3: Vec<Ev> = vec![Ev::Connect { from: 0, to: 1 }, Ev::Connect { from: 0, to: 2 }, Ev::Connect { from: 2, to: 1 }, Ev::Accept { sock: 1 }, Ev::Accept { sock: 2 }, Ev::Settle];
    let len = ctx.tier.pick(6usize, 8usize);
    let mut families: Vec<(String, Vec<SockCfg>, Vec<Ev>, usize)> = vec![];
    for max_live in [1usize, 2, 3, 64] {
        for (da, db) in [(0i32, 0i32), (1, 0), (0, 1), (2, 0), (0, 2)] {
            if max_live != 64 && (da, db) != (0, 0) {
                continue;
            }
            let bases = [(500 + da) as u16, (500 + db) as u16];
            families.push((format!("sock:c12-pair-live{max_live}-ids{da}/{db}"), cfg_n(2, max_live, &bases), alpha2.clone(), len));
        }
    }
    // first connection ids at the 16-bit wrap
    for (a, b) in [(0xffffu16, 0xffffu16), (0xfffe, 0xffff), (0xffff, 0), (0xfffd, 0xffff), (0, 0xfffe)] {
        families.push((format!("sock:c12-pair-wrap-ids{a:#x}/{b:#x}"), cfg_n(2, 64, &[a, b]), alpha2.clone(), ctx.tier.pick(5, 6)));
    }
    // several connects to the same peer in flight, some of them given up: the others must not notice
    let alpha_cancel: Vec<Ev> = vec![Ev::Connect { from: 0, to: 1 }, Ev::ConnectCancel(0), Ev::ConnectCancel(1), Ev::Accept { sock: 1 }, Ev::Settle];
    families.push(("sock:c12-pair-abandoned-connects".into(), cfg_n(2, 64, &[500, 600]), alpha_cancel, len));
    families.push(("sock:c12-triangle".into(), cfg_n(3, 64, &[500, 500, 501]), alpha3.clone(), len));
    families.push(("sock:c12-triangle-live2".into(), cfg_n(3, 2, &[500, 502, 501]), alpha3.clone(), ctx.tier.pick(5, 6)));
    for (name, cfgs, alpha, len) in families {
        // all sequences; connects/accepts back to back (same instant) and separated variants
        let mut seqs: Vec<Vec<usize>> = vec![vec![]];
        let mut frontier: Vec<Vec<usize>> = vec![vec![]];
        for _ in 0..len {
            let mut next = vec![];
            for s in &frontier {
                for a in 0..alpha.len() {
                    let mut n = s.clone();
                    n.push(a);
                    next.push(n);
                }
            }
            seqs.extend(next.iter().cloned());
            frontier = next;
        }
        let mut cases: Vec<(Vec<(Ev, bool)>, u64)> = vec![];
        for s in &seqs {
            if s.is_empty() {
                continue;
            }
            cases.push((s.iter().map(|i| (alpha[*i].clone(), false)).collect(), 1));
            if s.len() >= 2 && s.len() <= 4 {
                // everything issued in one instant
                cases.push((s.iter().enumerate().map(|(k, i)| (alpha[*i].clone(), k > 0)).collect(), 1));
                cases.push((s.iter().enumerate().map(|(k, i)| (alpha[*i].clone(), k > 0)).collect(), 2));
            }
        }
        let t0 = std::time::Instant::now();
        let budget = ctx.budget_left();
        let results: Vec<Option<(Vec<SFinding>, u64)>> = cases
            .par_iter()
            .map(|(ev, seed)| {
                if t0.elapsed().as_secs_f64() > budget - 3.0 {
                    return None;
                }
                let script = SockScript { cfgs: cfgs.clone(), events: ev.clone(), rng_seed: *seed, latency_us: 10_000, plan: vec![] };
                let l = run(&script);
                Some((judge_c12(&script, &l), l.trace_hash))
            })
            .collect();
        let mut p = Part::fe(&name);
        let mut seen = std::collections::HashSet::new();
        let mut best: BTreeMap<String, (SFinding, Vec<(Ev, bool)>, u64)> = BTreeMap::new();
        let mut skipped = 0;
        for ((ev, seed), r) in cases.iter().zip(results) {
            match r {
                None => skipped += 1,
                Some((fs, h)) => {
                    p.evaluations += 1;
                    if seen.insert(h) {
                        p.distinct_nontrivial += 1;
                    }
                    for f in fs {
                        let e = best.entry(format!("{}|{}", f.property, f.signature)).or_insert((f.clone(), ev.clone(), *seed));
                        if ev.len() < e.1.len() {
                            *e = (f, ev.clone(), *seed);
                        }
                    }
                }
            }
        }
        p.distinct_outcomes = p.distinct_nontrivial.min(1000);
        p.bound = format!("all sequences of <= {len} events over {} socket events ({} sockets), issued separately and (length 2..4) all in one instant under 2 select! seeds", alpha.len(), cfgs.len());
        if skipped > 0 {
            p.caps_hit.push(format!("time budget: {skipped} cases not executed"));
            p.exhaustive = false;
        }
        p.samples.push(json!(["Connect 0->1", "Connect 1->0", "Accept 0", "Accept 1"]));
        for (_, (f, ev, seed)) in best {
            let script = SockScript { cfgs: cfgs.clone(), events: ev.clone(), rng_seed: seed, latency_us: 10_000, plan: vec![] };
            for _ in 0..2 {
                let l = run(&script);
                if !judge_c12(&script, &l).iter().any(|g| g.signature == f.signature) {
                    machinery_error(&format!("C12 finding {} did not reproduce", f.signature));
                }
            }
            out.violations.push(Violation {
                property: f.property.to_string(),
                monitor: f.monitor.to_string(),
                signature: f.signature.clone(),
                detail: format!("[{} events {:?} seed {seed}] {}", name, ev, f.detail),
                replay: replay_json(&script, "c12"),
            });
        }
        out.parts.push(p);
    }
    // fault interleavings: two connections in both directions, every single deviation; once as is and once
    // with a spare acceptor parked on each socket (a duplicated SYN then meets a pending accept)
    for spare in [false, true] {
        let cfgs = cfg_n(2, 64, &[500, 501]);
        let mut events = vec![(Ev::Accept { sock: 0 }, false), (Ev::Accept { sock: 1 }, true), (Ev::Connect { from: 0, to: 1 }, true), (Ev::Connect { from: 1, to: 0 }, true), (Ev::Connect { from: 0, to: 1 }, false), (Ev::Accept { sock: 1 }, true)];
        if spare {
            events.push((Ev::Accept { sock: 0 }, true));
            events.push((Ev::Accept { sock: 1 }, true));
        }
        events.push((Ev::Settle, false));
        events.push((Ev::Settle, false));
        let base = SockScript { cfgs: cfgs.clone(), events: events.clone(), rng_seed: 1, latency_us: 10_000, plan: vec![] };
        let l0 = run(&base);
        let n = l0.wire.iter().filter(|w| w.k != usize::MAX).count();
        let mut plans: Vec<Vec<(usize, crate::duo::sim::Fate)>> = vec![vec![]];
        for k in 0..n {
            // a lost SYN is never retransmitted: losing it is not a fault the property is about -
            // duplicating or delaying it is
            let is_syn = l0.wire.iter().any(|w| w.k == k && w.ptype == 4);
            for fate in [crate::duo::sim::Fate::Drop, crate::duo::sim::Fate::Dup, crate::duo::sim::Fate::Delay(15_000), crate::duo::sim::Fate::Delay(300_000)] {
                if is_syn && fate == crate::duo::sim::Fate::Drop {
                    continue;
                }
                plans.push(vec![(k, fate)]);
            }
        }
        let results: Vec<(Vec<SFinding>, u64)> = plans
            .par_iter()
            .map(|pl| {
                let mut s = base.clone();
                s.plan = pl.clone();
                let l = run(&s);
                (judge_c12(&s, &l), l.trace_hash)
            })
            .collect();
        let mut p = Part::fe(if spare { "sock:c12-interleaved-faults-spare-acceptors" } else { "sock:c12-interleaved-faults" });
        let mut seen = std::collections::HashSet::new();
        for (pl, (fs, h)) in plans.iter().zip(results) {
            p.evaluations += 1;
            if seen.insert(h) {
                p.distinct_nontrivial += 1;
            }
            for f in fs {
                if !out.violations.iter().any(|v| v.signature == f.signature) {
                    let mut s = base.clone();
                    s.plan = pl.clone();
                    out.violations.push(Violation { property: f.property.to_string(), monitor: f.monitor.to_string(), signature: f.signature.clone(), detail: format!("[interleaved-faults plan {:?}] {}", pl, f.detail), replay: replay_json(&s, "c12") });
                }
            }
        }
        p.distinct_outcomes = p.distinct_nontrivial;
        p.bound = format!("three connections (two A->B, one B->A) opened in one instant{}, every single drop/dup/delay(15 ms, 300 ms) of each of the {n} datagrams (a SYN is duplicated or delayed, not dropped)", if spare { ", one more accept parked on each socket" } else { "" });
        p.samples.push(json!({"plan": [[7, "Drop"]]}));
        out.parts.push(p);
    }
    // a peer that reconnects with the same connection id in the instant its old connection dies here: the
    // dead connection's queued clean-up request must not remove the new connection's table entry
    {
        let mut p = Part::fe("sock:c12-key-reuse-at-death");
        let mut seen = std::collections::HashSet::new();
        let mut hits = 0u64;
        let seeds: Vec<u64> = (1..=ctx.tier.pick(16u64, 64u64)).collect();
        let variants: Vec<(&str, Vec<(Ev, bool)>)> = vec![
            // the accepted connection dies of the fake peer's silence (SYN-ACK repeats run out)
            ("silent-peer", vec![(Ev::RawSyn { to: 0, fake: 0 }, false), (Ev::Accept { sock: 0 }, false), (Ev::Accept { sock: 0 }, false), (Ev::ReuseKeyAtDeath { to: 0, fake: 0 }, false), (Ev::Wait(30), false), (Ev::ProbeTable { to: 0 }, false), (Ev::Wait(300), false), (Ev::ProbeTable { to: 0 }, false)]),
            // the application drops the accepted stream first
            ("dropped-stream", vec![(Ev::RawSyn { to: 0, fake: 0 }, false), (Ev::Accept { sock: 0 }, false), (Ev::Accept { sock: 0 }, false), (Ev::Settle, false), (Ev::CloseOldest, false), (Ev::ReuseKeyAtDeath { to: 0, fake: 0 }, false), (Ev::Wait(30), false), (Ev::ProbeTable { to: 0 }, false), (Ev::Wait(300), false), (Ev::ProbeTable { to: 0 }, false)]),
        ];
        // second form: a first run tells the instant of death; the datagrams are then sent one path latency
        // earlier, so that they arrive in that instant whatever runs first in it (offsets of +-1 ms too)
        let mut timed: Vec<(String, Vec<(Ev, bool)>)> = vec![];
        for (n, ev) in &variants {
            let script = SockScript { cfgs: cfg_n(1, 64, &[500]), events: ev.clone(), rng_seed: 1, latency_us: 10_000, plan: vec![] };
            let l = run(&script);
            if let Some(td) = l.lifecycle.iter().find(|(_, created, _, _)| !*created).map(|(t, _, _, _)| *t) {
                for off in [-1000i64, 0, 1000] {
                    let ev2: Vec<(Ev, bool)> = ev.iter().map(|(e, s)| (if let Ev::ReuseKeyAtDeath { to, fake } = e { Ev::ReuseKeyAt { to: *to, fake: *fake, at_us: (td as i64 + off) as u64 } } else { e.clone() }, *s)).collect();
                    timed.push((format!("{n}-timed{off:+}"), ev2));
                }
            }
        }
        let mut variants: Vec<(String, Vec<(Ev, bool)>)> = variants.iter().map(|(n, e)| (n.to_string(), e.clone())).collect();
        variants.extend(timed);
        let cases: Vec<(String, Vec<(Ev, bool)>, u64)> = variants.iter().flat_map(|(n, ev)| seeds.iter().map(move |s| (n.clone(), ev.clone(), *s))).collect();
        let results: Vec<(Vec<SFinding>, u64, bool, Vec<(u64, usize, usize)>, Vec<u8>)> = cases
            .par_iter()
            .map(|(_, ev, seed)| {
                let script = SockScript { cfgs: cfg_n(1, 64, &[500]), events: ev.clone(), rng_seed: *seed, latency_us: 10_000, plan: vec![] };
                let l = run(&script);
                (judge_c12(&script, &l), l.trace_hash, l.reuse_hit.iter().all(|h| *h) && !l.reuse_hit.is_empty(), l.table_probes.clone(), l.arms.iter().map(|(_, a)| *a).collect::<Vec<u8>>())
            })
            .collect();
        let mut classes = std::collections::BTreeSet::new();
        for ((n, ev, seed), (fs, h, hit, probes, arms)) in cases.iter().zip(results) {
            p.evaluations += 1;
            if seen.insert(h) {
                p.distinct_nontrivial += 1;
            }
            if hit {
                hits += 1;
            }
            classes.insert(format!("{n}: (live, entries) {:?} dispatcher arms {:?}", probes.iter().map(|(_, l, s)| (*l, *s)).collect::<Vec<_>>(), arms));
            for f in fs {
                if !out.violations.iter().any(|v| v.signature == f.signature) {
                    let script = SockScript { cfgs: cfg_n(1, 64, &[500]), events: ev.clone(), rng_seed: *seed, latency_us: 10_000, plan: vec![] };
                    out.violations.push(Violation { property: f.property.to_string(), monitor: f.monitor.to_string(), signature: f.signature.clone(), detail: format!("[key-reuse {n} seed {seed}] {}", f.detail), replay: replay_json(&script, "c12") });
                }
            }
        }
        if hits == 0 {
            machinery_error("C12 key-reuse: no execution saw the first connection die (vacuous)");
        }
        p.distinct_outcomes = classes.len() as u64;
        p.extra.insert("outcome_classes".into(), json!(classes));
        p.bound = format!("2 ways for the first connection to die x {} select! seeds; in the instant its object is dropped a datagram for its receive key and a new SYN with the same id arrive; (live objects, table entries) probed 30 ms and 330 ms later; {hits} executions hit the instant", seeds.len());
        p.samples.push(json!({"variant": "silent-peer", "seed": 1}));
        out.parts.push(p);
    }
    // a connect is completed only by a packet that names the connection: state packets from the peer's
    // address that acknowledge the SYN but carry another connection id (ids around the right one and far
    // from it), before and after the genuine SYN-ACK, in every order
    {
        let mut p = Part::fe("sock:c12-syn-ack-with-foreign-id");
        let deltas = [1u16, 2, 3, 7, 0xffff, 0xfffe, 1000];
        let mut cases: Vec<Vec<(Ev, bool)>> = vec![];
        for d in deltas {
            let foreign = Ev::RawSynAckOtherId { from: 0, fake: 50, delta: d };
            let genuine = Ev::RawSynAck { from: 0, fake: 50 };
            let connect = Ev::ConnectFake { from: 0, fake: 50 };
            cases.push(vec![(connect.clone(), false), (foreign.clone(), false), (Ev::Settle, false)]);
            cases.push(vec![(connect.clone(), false), (foreign.clone(), false), (genuine.clone(), false), (Ev::Settle, false)]);
            cases.push(vec![(connect.clone(), false), (foreign.clone(), false), (genuine.clone(), true), (Ev::Settle, false)]);
            cases.push(vec![(connect.clone(), false), (genuine.clone(), false), (foreign.clone(), true), (Ev::Settle, false)]);
            cases.push(vec![(connect.clone(), false), (connect.clone(), false), (foreign.clone(), false), (genuine.clone(), false), (Ev::Settle, false)]);
        }
        let results: Vec<(Vec<SFinding>, u64)> = cases
            .par_iter()
            .map(|ev| {
                let script = SockScript { cfgs: cfg_n(1, 64, &[500]), events: ev.clone(), rng_seed: 1, latency_us: 10_000, plan: vec![] };
                let l = run(&script);
                let mut fs = judge_c12(&script, &l);
                // the id the stream sends with = id of the SYN + 1; whatever completed the connect, the first
                // packet the new connection emits tells which ids it was wired with
                for (i, c) in l.connects.iter().enumerate() {
                    if let (Done::Ok { .. }, Some(t_done)) = (&c.done, c.done_us) {
                        let genuine_seen = l.wire.iter().zip(l.wire_from.iter()).any(|(w, from)| w.injected && w.ptype == 2 && *from == fake_addr(50) && w.t_us <= t_done && l.wire.iter().any(|s| s.ptype == 4 && !s.injected && s.conn_id == w.conn_id));
                        if !genuine_seen {
                            fs.push(sf("C12", "isolation", "ids/connect-completed-by-a-packet-with-a-foreign-connection-id", format!("connect #{i} completed at {t_done} us although no state packet carrying the connection id of its SYN had arrived: a packet naming another connection was taken as its SYN-ACK")));
                        }
                    }
                }
                (fs, l.trace_hash)
            })
            .collect();
        let mut seen = std::collections::HashSet::new();
        for (ev, (fs, h)) in cases.iter().zip(results) {
            p.evaluations += 1;
            if seen.insert(h) {
                p.distinct_nontrivial += 1;
            }
            for f in fs {
                if !out.violations.iter().any(|v| v.signature == f.signature) {
                    let script = SockScript { cfgs: cfg_n(1, 64, &[500]), events: ev.clone(), rng_seed: 1, latency_us: 10_000, plan: vec![] };
                    out.violations.push(Violation { property: f.property.to_string(), monitor: f.monitor.to_string(), signature: f.signature.clone(), detail: format!("[foreign-id events {:?}] {}", ev, f.detail), replay: replay_json(&script, "c12") });
                }
            }
        }
        p.distinct_outcomes = p.distinct_nontrivial;
        p.bound = "a connect to a silent peer x 7 foreign connection ids (id of the SYN +1, +2, +3, +7, -1, -2, +1000) x 5 orders of the foreign packet, the genuine SYN-ACK and a second connect".into();
        p.samples.push(json!({"delta": 1, "order": "foreign, genuine"}));
        out.parts.push(p);
    }
    out.rule = "C12: every sequence of connect/accept/close events up to the stated length over 2 and 3 sockets, for connection limits 1, 2, 3, 64 and adjacent / equal first connection ids on the two sides; per-stream position-coded payloads in both directions; single-fault interleavings".into();
    out.assumptions.push("a lost SYN is never retransmitted by the library, so SYNs are exempt from the fault plans".into());
    out
}

/// C10 at the socket: stray / hostile datagrams from unknown addresses, with unknown connection ids,
/// or aimed at a live connection from the wrong address must not change what the connections do.
pub fn hostile_socket(ctx: &Ctx) -> Outcome {
    let mut out = Outcome::default();
    let cfgs = cfg_n(2, 64, &[500, 700]);
    // base conversation: two connections A->B, then one more connect+accept afterwards
    let base_events = |stray: Option<(usize, Ev)>| -> Vec<(Ev, bool)> {
        let mut ev = vec![
            (Ev::Accept { sock: 1 }, false),
            (Ev::Accept { sock: 1 }, true),
            (Ev::Connect { from: 0, to: 1 }, true),
            (Ev::Connect { from: 0, to: 1 }, false),
            (Ev::Settle, false),
            (Ev::Accept { sock: 1 }, false),
            (Ev::Connect { from: 0, to: 1 }, true),
            (Ev::Settle, false),
        ];
        if let Some((pos, e)) = stray {
            ev.insert(pos, (e, false));
        }
        ev
    };
    let base = SockScript { cfgs: cfgs.clone(), events: base_events(None), rng_seed: 1, latency_us: 10_000, plan: vec![] };
    let l0 = run(&base);
    let sig0: Vec<(u64, SocketAddr, SocketAddr, u8, u16, u16, u16, usize)> = l0.wire.iter().enumerate().filter(|(_, w)| !w.injected).map(|(i, w)| (w.t_us, l0.wire_from[i], l0.wire_to[i], w.ptype, w.conn_id, w.seq, w.ack, w.len)).collect();
    let mut cases = vec![];
    for pos in 1..base.events.len() {
        for to in [0u8, 1] {
            for kind in 0u8..10 {
                cases.push((pos, Ev::Stray { to, kind }));
            }
        }
    }
    let results: Vec<(usize, Ev, SockLog)> = cases
        .par_iter()
        .map(|(pos, e)| {
            let s = SockScript { cfgs: cfgs.clone(), events: base_events(Some((*pos, e.clone()))), rng_seed: 1, latency_us: 10_000, plan: vec![] };
            (*pos, e.clone(), run(&s))
        })
        .collect();
    let mut p = Part::mc("sock:hostile-socket");
    let mut seen = std::collections::HashSet::new();
    for (pos, e, l) in results {
        p.transitions += 1;
        seen.insert(l.trace_hash);
        if let Some(pm) = &l.panicked {
            out.violations.push(Violation { property: "C10".into(), monitor: "panic".into(), signature: "panic/in-socket-run".into(), detail: pm.clone(), replay: json!({}) });
            continue;
        }
        // stray kinds 0..2 come from addresses / ids that belong to no connection: traces must be identical
        let is_foreign = matches!(e, Ev::Stray { kind: 0..=2, .. }) || matches!(e, Ev::Stray { kind: 4..=7, .. });
        let mut sig: Vec<(u64, SocketAddr, SocketAddr, u8, u16, u16, u16, usize)> = l.wire.iter().enumerate().filter(|(_, w)| !w.injected).map(|(i, w)| (w.t_us, l.wire_from[i], l.wire_to[i], w.ptype, w.conn_id, w.seq, w.ack, w.len)).collect();
        // the stray event itself shifts later events by one 1 ms slot: compare shapes without absolute time
        let strip = |v: &Vec<(u64, SocketAddr, SocketAddr, u8, u16, u16, u16, usize)>| v.iter().map(|x| (x.1, x.2, x.3, x.4, x.5, x.6, x.7)).collect::<Vec<_>>();
        let ok_connects = l.connects.iter().filter(|c| matches!(c.done, Done::Ok { payload_ok: true, .. })).count();
        let ok_accepts = l.accepts.iter().filter(|c| matches!(c.done, Done::Ok { payload_ok: true, token: Some(_), .. })).count();
        if is_foreign {
            sig.retain(|x| x.3 != 3 || true);
            if strip(&sig) != strip(&sig0) {
                let s = SockScript { cfgs: cfgs.clone(), events: base_events(Some((pos, e.clone()))), rng_seed: 1, latency_us: 10_000, plan: vec![] };
                if !out.violations.iter().any(|v| v.signature == "contamination/foreign-datagram-changes-conversation") {
                    out.violations.push(Violation {
                        property: "C10".into(),
                        monitor: "cross-contamination".into(),
                        signature: "contamination/foreign-datagram-changes-conversation".into(),
                        detail: format!("a stray datagram ({e:?} before event {pos}) from an address / connection id that belongs to no connection changed the datagrams the sockets exchange ({} vs {} datagrams)", sig.len(), sig0.len()),
                        replay: replay_json(&s, "hostile"),
                    });
                }
            }
        }
        if ok_connects < 3 || ok_accepts < 3 {
            // kind 3 may break the one connection it is aimed at - but only that one, and later service works
            // (a replayed SYN of a live connection, kind 9, must not break anything: neither that connection
            // nor the accept that happens to be waiting)
            let tolerated = matches!(e, Ev::Stray { kind: 3 | 8, .. }) && ok_connects >= 2 && ok_accepts >= 2;
            if !tolerated {
                let s = SockScript { cfgs: cfgs.clone(), events: base_events(Some((pos, e.clone()))), rng_seed: 1, latency_us: 10_000, plan: vec![] };
                if !out.violations.iter().any(|v| v.signature == "contamination/hostile-datagram-breaks-other-connections") {
                    out.violations.push(Violation {
                        property: "C10".into(),
                        monitor: "cross-contamination".into(),
                        signature: "contamination/hostile-datagram-breaks-other-connections".into(),
                        detail: format!("after {e:?} before event {pos} only {ok_connects} connects and {ok_accepts} accepts completed with intact payloads (3 and 3 without it)"),
                        replay: replay_json(&s, "hostile"),
                    });
                }
            }
        }
    }
    // a connection request from the other address family (with a spare accept waiting for it) at every small
    // link MTU the options accept: header sizes differ per family, the service must go on
    for link_mtu in [49usize, 58, 60, 68, 69, 80] {
        let mut cfgs = cfgs.clone();
        for c in cfgs.iter_mut() {
            c.link_mtu = link_mtu;
        }
        let mut ev = vec![(Ev::Accept { sock: 1 }, false), (Ev::RawSynV6 { to: 1, fake: 90 }, false), (Ev::Settle, false)];
        ev.extend(base_events(None));
        let s = SockScript { cfgs: cfgs.clone(), events: ev, rng_seed: 1, latency_us: 10_000, plan: vec![] };
        let l = run(&s);
        p.transitions += 1;
        seen.insert(l.trace_hash);
        let ok_connects = l.connects.iter().filter(|c| matches!(c.done, Done::Ok { payload_ok: true, .. })).count();
        let v6_accepted = l.accepts.iter().any(|a| matches!(&a.done, Done::Ok { remote, .. } if remote.is_ipv6()));
        if let Some(pm) = &l.panicked {
            out.violations.push(Violation { property: "C10".into(), monitor: "panic".into(), signature: "panic/in-socket-run".into(), detail: pm.clone(), replay: replay_json(&s, "hostile") });
        } else if ok_connects < 3 || !v6_accepted {
            if !out.violations.iter().any(|v| v.signature == "contamination/request-from-the-other-address-family-breaks-the-service") {
                out.violations.push(Violation {
                    property: "C10".into(),
                    monitor: "cross-contamination".into(),
                    signature: "contamination/request-from-the-other-address-family-breaks-the-service".into(),
                    detail: format!("link MTU {link_mtu}: after a SYN from an IPv6 address (a spare accept was waiting for it: accepted = {v6_accepted}) only {ok_connects} of the 3 later connects completed with intact payloads"),
                    replay: replay_json(&s, "hostile"),
                });
            }
        }
    }
    p.states = seen.len() as u64;
    p.distinct_outcomes = seen.len() as u64;
    p.bound = "3 connections on one socket pair; 10 kinds of stray / malformed / hostile datagram to either socket at every position of the event script; differential against the run without it; plus a connection request from an IPv6 address at link MTUs {49, 58, 60, 68, 69, 80}".into();
    p.samples.push(json!({"stray": "RESET with a live connection's id from a foreign address", "position": 4}));
    let _ = ctx;
    out.parts.push(p);
    out
}

pub fn replay(v: &Value) -> i32 {
    let r = &v["replay"];
    let script: SockScript = match serde_json::from_value(r["script"].clone()) {
        Ok(s) => s,
        Err(e) => machinery_error(&format!("bad socket script: {e}")),
    };
    let l = run(&script);
    for (i, w) in l.wire.iter().enumerate() {
        println!(
            "{:>10.3} ms {} -> {} {} cid={} seq={} ack={} wnd={} len={}{}",
            w.t_us as f64 / 1000.0,
            l.wire_from[i],
            l.wire_to[i],
            crate::duo::debug::type_name(w.ptype),
            w.conn_id,
            w.seq,
            w.ack,
            w.wnd,
            w.payload.len(),
            if w.injected { " <injected>" } else { "" }
        );
    }
    for (i, c) in l.connects.iter().enumerate() {
        println!("connect #{i}: {:?}", c);
    }
    for (i, c) in l.accepts.iter().enumerate() {
        println!("accept  #{i}: {:?}", c);
    }
    println!("max_streams_seen={:?} streams_at_end={:?} connecting_at_end={:?} live_at_end={} arms={:?}", l.max_streams_seen, l.streams_at_end, l.connecting_at_end, l.live_at_end, l.arms.iter().map(|a| a.1).collect::<Vec<_>>());
    let want = v["signature"].as_str().unwrap_or("");
    let fs = if r["kind"].as_str() == Some("c12") { judge_c12(&script, &l) } else { judge_c13(&script, &l, script.cfgs[1].max_live >= 32) };
    let mut hit = false;
    for f in &fs {
        println!("FINDING {} {} {}: {}", f.property, f.monitor, f.signature, f.detail);
        if f.signature == want {
            hit = true;
        }
    }
    if hit {
        println!("REPLAY-VIOLATION {want}");
        1
    } else {
        println!("REPLAY-OK (recorded signature {want:?} not reproduced)");
        0
    }
}
