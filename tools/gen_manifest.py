#!/usr/bin/env python3
"""Generates /verif/MANIFEST.json from the table below (single source of truth for the interface)."""
import json, subprocess, sys

CHECKS = {
 # id: (level category, engine, technique, level text, level note, design ref)
 "C01": ("fault_enumeration", "duo (+exhaust)",
         "deviation-bounded exhaustive fault-plan enumeration over two real sockets on a simulated network (paused clock), prefix oracle at every read",
         "Two real UtpSockets with their real tasks run every scenario under EVERY plan of up to d drop/dup/delay deviations at any send index (iterative deviation bounding), plus a size-blackhole / EMSGSIZE path family with MTU probing active; at every poll_read return the position-coded bytes read must be a prefix of what the peer's poll_write accepted. A sample of lossy runs cannot give the 'no plan with <= d deviations corrupts the stream' statement this does.",
         "Bounded: deviation count d, scenario library, MSS 10 / tiny buffers (plus 528..1452-byte MTU family); one seeded current-thread runtime (no sub-poll thread interleavings); SimNet and oracles trusted.",
         "DESIGN.md 5 C01"),
 "C02": ("fault_enumeration", "duo (+solo)",
         "deviation-bounded exhaustive fault-plan enumeration (fair-lossy plans) with bounded-liveness and wire-silence oracles under a virtual clock",
         "Every plan of up to d drop/dup/delay deviations after the handshake (d below the retransmission limit, hence fair) must complete: all scripted writes accepted, all accepted bytes read, flush/shutdown return Ok, within a virtual-time horizon; the fault-free plan must additionally satisfy the promptness clause (no wire silence > RTT + 40 ms while bytes are undelivered and the reader is parked; write / shutdown on an idle connection on the wire at the same virtual instant; FIN at the instant the last ACK arrives). The real 5 s tracing tick is part of the system, so missing wake-ups show as multi-second silences.",
         "Liveness decided as bounded liveness (horizon 20 s, inactivity timeout configured 30 s); scenario library; deviation bound; known finding F3 (no persist timer) listed in known_findings.json.",
         "DESIGN.md 5 C02"),
 "C03": ("fault_enumeration", "duo",
         "exhaustive enumeration of abort points (network cut, RESET, cancellation at every send index) and deviation-bounded loss patterns on the FIN exchange",
         "For every send index of every scenario the network is cut, a RESET is delivered to either side, or either socket is cancelled; plus all plans of up to d drop/dup/delay deviations restricted to the closing packets. Oracles: flush/shutdown Ok only with a delivered ACK covering the bytes and the peer really reading them; EOF exactly at the byte position preceding the peer's FIN; every obliged call resolves within the bound; later writes on a dead connection fail.",
         "Bound = 3 s inactivity + 6.2 s back-off + 1 s + 1 s slack; an idle endpoint whose peer vanishes silently is not obliged (no keep-alive, as the property words it: 'with data outstanding'); known finding F3-abort.",
         "DESIGN.md 5 C03"),
 "C04": ("model_checking", 'solo',
         'explicit-state BFS of one real connection (hand-polled, scripted peer/app, paused clock) with fingerprint de-duplication; ACK/SACK/window monitors on every emitted packet',
         "Every history of up to the stated depth over arrival orders (in order, gap, duplicate, beyond the window, burst of two, FIN), payload sizes and reader behaviour is executed on the real VirtualSocket; after every transition every emitted packet's ack_nr, SACK bits and advertised window are compared with the reference set of packets the scripted peer sent and with the bytes actually buffered.",
         'Bounded: depth, alphabet of boundary values, datagram bursts of at most 2 between polls, MSS 10 (4 for the ring driver; 528..652 for MTU drivers); state identity = exhaustive-destructuring dump of the whole connection + harness + monitor state, checked by an empirical bisimulation test on merged states; monitors and scripted peer trusted.',
         'DESIGN.md 5 C04'),
 "C05": ("model_checking", 'solo',
         'explicit-state BFS of one real connection over ACK/window histories x writes; window / slow-start / post-RTO monitors at every first transmission',
         'Every history of up to the stated depth over writes and ACKs with growing, shrinking, zero and re-opening windows (both Nagle settings) is executed on the real connection; at every first transmission outside loss episodes the outstanding bytes (from the wire) are compared with the last advertised window, the slow-start bound and the single-segment-after-RTO rule.',
         'Bounded: depth, alphabet of boundary values, datagram bursts of at most 2 between polls, MSS 10 (4 for the ring driver; 528..652 for MTU drivers); state identity = exhaustive-destructuring dump of the whole connection + harness + monitor state, checked by an empirical bisimulation test on merged states; monitors and scripted peer trusted. Known finding F16 (RTO timer pushes a never-sent segment past the window).',
         'DESIGN.md 5 C05'),
 "C06": ("model_checking", 'solo',
         'explicit-state BFS of one real connection over loss/ACK/SACK/stale-ACK histories x timer expiries; retransmission-discipline monitors',
         'Every history of up to the stated depth over writes, cumulative / duplicate / stale / selective ACKs and timer expiries is executed on the real connection (two retry caps, fresh and grown congestion window, an MTU-probing path); monitors demand retransmission at the RTO deadline with doubling, fast retransmit on the third duplicate / SACK evidence, the retry cap, never retransmitting acknowledged segments and byte-stable retransmissions.',
         'Bounded: depth, alphabet of boundary values, datagram bursts of at most 2 between polls, MSS 10 (4 for the ring driver; 528..652 for MTU drivers); state identity = exhaustive-destructuring dump of the whole connection + harness + monitor state, checked by an empirical bisimulation test on merged states; monitors and scripted peer trusted. RTO value in force read through the hook observer. Known finding F18 (delivered probe re-cut).',
         'DESIGN.md 5 C06'),
 "C07": ("model_checking", 'solo',
         'explicit-state BFS of one real connection over arrival patterns x inter-arrival gaps x reader schedules; per-packet 40 ms obligations in the monitor state',
         'Every history of up to the stated depth over data arrivals (in order, gap, gap fill, duplicate, burst, FIN), 5 ms waits, timer ticks, reads and spurious polls is executed on the real connection, also half-closed; each accepted packet carries a deadline in the monitor state, immediate-ACK triggers and the zero-window re-opening are demanded within the same virtual instant, and an idle endpoint must stay silent on a spurious poll.',
         'Bounded: depth, alphabet of boundary values, datagram bursts of at most 2 between polls, MSS 10 (4 for the ring driver; 528..652 for MTU drivers); state identity = exhaustive-destructuring dump of the whole connection + harness + monitor state, checked by an empirical bisimulation test on merged states; monitors and scripted peer trusted.',
         'DESIGN.md 5 C07'),
 "C10": ("model_checking", 'solo (+exhaust C11 parser sweep)',
         'explicit-state BFS: from 8 connection states all sequences of hostile packets (bounded depth) mixed with benign actions, under catch_unwind, with bug-error and buffer-bound monitors',
         'From established / accepted / in-flight / out-of-order-held / fast-recovery / RTO-mode / FIN-wait / last-ack states every sequence (up to the stated depth) over ~50 hostile packets (absurd ack/seq/window, SACK lengths 0..36, oversize payloads, types illegal in the state, bursts) and benign application actions is executed; no panic, no Bug* error, buffering within the configured bounds.',
         'Bounded: depth, alphabet of boundary values, datagram bursts of at most 2 between polls, MSS 10 (4 for the ring driver; 528..652 for MTU drivers); state identity = exhaustive-destructuring dump of the whole connection + harness + monitor state, checked by an empirical bisimulation test on merged states; monitors and scripted peer trusted. Datagrams enter as bytes through the library parser exactly as in the socket dispatcher; a starved connection task (unbounded inbound channel) is outside the explored schedules.',
         'DESIGN.md 5 C10'),
 "C14": ("model_checking", 'exhaust + solo + duo',
         'exhaustive sweep of the real SegmentSizes over all link MTUs x families x path limits; explicit-state BFS of one connection on probing paths; deviation-bounded fault enumeration over two real sockets on blackhole / EMSGSIZE paths',
         'All link MTUs 49..1500, both families, every true path limit: the binary search settles on the largest size that fits within the logarithmic probe bound and never exceeds the link ceiling whatever sizes the peer uses; BFS of one connection under blackhole / EMSGSIZE / peer payload sizes checks datagram sizes, the proven-size rule, the single-newest-probe rule and the bytes after failed probes; two real sockets transfer 60 kB over the path families with an extra dropped datagram and must keep the stream intact and settle.',
         'Bounded: depth, alphabet of boundary values, datagram bursts of at most 2 between polls, MSS 10 (4 for the ring driver; 528..652 for MTU drivers); state identity = exhaustive-destructuring dump of the whole connection + harness + monitor state, checked by an empirical bisimulation test on merged states; monitors and scripted peer trusted. Known finding F18.',
         'DESIGN.md 5 C14'),
 "C17": ("model_checking", 'solo + duo',
         'explicit-state BFS from every handshake/teardown state over peer packets x app actions x timers with wire-rule monitors R1-R4; deviation-bounded fault plans for FIN emission',
         "From incoming, established, in-flight, FIN-wait-1/2 and last-ack states (wait_for_last_ack on and off) every history up to the stated depth is executed; monitors enforce the SYN-ACK rules, FIN numbering / ordering / stability, in-sequence-only honouring of the peer's FIN with immediate ACK and own FIN, and silence after RESET; over two real sockets every plan of <= d deviations must see the FIN on the wire at the instant all data is acknowledged.",
         'Bounded: depth, alphabet of boundary values, datagram bursts of at most 2 between polls, MSS 10 (4 for the ring driver; 528..652 for MTU drivers); state identity = exhaustive-destructuring dump of the whole connection + harness + monitor state, checked by an empirical bisimulation test on merged states; monitors and scripted peer trusted.',
         'DESIGN.md 5 C17'),
 "C18": ("model_checking", 'solo',
         'explicit-state BFS of one real connection over write-size sequences x ACK timings x both Nagle settings',
         'Every history up to the stated depth over writes of 1, mss-1, mss, mss+1, 2mss+1 bytes and ACKs with small and large windows is executed with Nagle on and off; a partial first transmission while earlier data is unacknowledged (unless cut by the peer window), buffered bytes left unsent when the pipe drains, and (Nagle off) bytes held back although window and congestion window leave room are violations.',
         'Bounded: depth, alphabet of boundary values, datagram bursts of at most 2 between polls, MSS 10 (4 for the ring driver; 528..652 for MTU drivers); state identity = exhaustive-destructuring dump of the whole connection + harness + monitor state, checked by an empirical bisimulation test on merged states; monitors and scripted peer trusted. Congestion window read through the hook observer.',
         'DESIGN.md 5 C18'),
 "C19": ("model_checking", 'solo + exhaust',
         'explicit-state BFS of one real connection over write sizes x ACK schedules x buffer settings; exhaustive op sequences on the real TX ring vs a VecDeque',
         'BFS over writes of 1..40 bytes, partial / full / zero-window ACKs and flushes for (initial, max) = (8,8), (8,32), (32,8): accepted minus acknowledged never exceeds the limit, a parked writer is woken in the step that frees space, wire payload stays correct across growth; all 8^depth sequences of write / truncate / grow on the real UserTx ring agree with a VecDeque reference.',
         'Bounded: depth, alphabet of boundary values, datagram bursts of at most 2 between polls, MSS 10 (4 for the ring driver; 528..652 for MTU drivers); state identity = exhaustive-destructuring dump of the whole connection + harness + monitor state, checked by an empirical bisimulation test on merged states; monitors and scripted peer trusted.',
         'DESIGN.md 5 C19'),
 "C08": ("fault_enumeration", "duo",
         "deviation-bounded loss enumeration on closing packets over 3 connect/close cycles under a connection limit of 1, plus exhaustive abort-point enumeration",
         "3 cycles of connect/transfer/close on one socket pair with max_live_vsocks=1 under every plan of up to d drop/dup deviations on the closing packets: each connection object must end within the bound after the application let go, nothing may be emitted for it afterwards, the table must be empty, and the next connect/accept must succeed; every cut/RESET/cancel point of every scenario: cancelled sockets' tasks end within 1 ms and their halves report errors.",
         "Connection-object lifetime and table sizes read via hooks H4/H5 (reconnect under limit 1 confirms release black-box); chatty-peer and accept-cancel cases are covered by the solo / socket drivers.",
         "DESIGN.md 5 C08"),
 "C09": ("model_checking", "exhaust+duo",
         "exhaustive enumeration of all 2^32 sequence-number pairs against true modular distance",
         "Every (new, old) pair of 16-bit values is evaluated on the real seq_nr_offset / SeqNr Sub / Ord and compared with true modular distance for every distance the default windows admit (1985 segments); antisymmetry and Ord/Sub consistency for all pairs. The space is finite and is covered completely, which no sample of pairs can do.",
         "Distance bound derived from the default buffer constants / smallest default MSS; trusted: the harness's 10-line oracle.",
         "DESIGN.md 5 C09"),
 "C11": ("model_checking", "exhaust",
         "structural exhaustive enumeration of byte strings vs an independent BEP-29 reference parser; exhaustive header round trip over boundary values",
         "All datagrams of a structurally enumerated family (every first byte, every length, extension chains of bounded depth with boundary declared lengths, truncated at every byte) are parsed by the library and by an independent reference parser and must agree on accept/reject, every field, header length and payload boundary; every header over the boundary-value grid must survive serialize/deserialize.",
         "Reference parser written from BEP 29 in the harness (trusted); last-wins for duplicate extension ids; chain depth bound stated in evidence.",
         "DESIGN.md 5 C11"),
 "C15": ("model_checking", "exhaust",
         "explicit-state BFS over CUBIC event sequences on the real controller with exact-state de-duplication",
         "Breadth-first search over all event sequences (ACKs, clock advances, RTT values, RTO, recovery entry/exit, MSS changes, peer windows incl. 0 and usize::MAX) up to the stated depth on the real Cubic struct; every invariant of the property is evaluated after every transition in every reachable state.",
         "Alphabet of boundary values (not all numerics); depth bound in evidence; state identity via the exhaustive-destructuring verif_state hook.",
         "DESIGN.md 5 C15"),
 "C16": ("model_checking", "exhaust",
         "exhaustive enumeration of all RTT sample/timeout sequences up to a depth vs exact rational RFC 6298 reference",
         "Every sequence of samples (0 ns .. 2 h) and timeouts up to the stated length is run on the real RttEstimator next to an exact rational-arithmetic reference; bounds, the RTO formula, doubling and the srtt range are checked after every step.",
         "Sample alphabet of 8 boundary values; 100 ns tolerance for the implementation's integer rounding.",
         "DESIGN.md 5 C16"),
}

ALL = ["C%02d" % i for i in range(1, 20)]
PENDING_REASON = "check under construction in this revision: not claimed yet (see DESIGN.md section 11, build order)"

def main():
    repo_commits = subprocess.run(["git", "-C", "/repo", "log", "--format=%h %s"], capture_output=True, text=True).stdout.splitlines()
    hooks = [l.split()[0] for l in repo_commits if l.split(" ", 1)[1].startswith("verif hooks")]
    m = {
        "version": 1,
        "setup_cmd": "cd /verif/harness && ( [ -f Cargo.lock ] || cp /repo/Cargo.lock Cargo.lock ) && CARGO_NET_OFFLINE=true cargo build --release",
        "hooks": {
            "guard": "cargo feature `verif` of librqbit-utp (off by default)",
            "enable": "the harness crate depends on librqbit-utp = { path = \"/repo\", features = [\"verif\"] }; every check runs `cargo build --release` in /verif/harness first, so it rebuilds from /repo's working tree",
            "baseline_off_cmd": "cd /repo && cargo nextest run --workspace --no-fail-fast --offline || cargo test --workspace --no-fail-fast --offline",
            "source_commits": hooks,
            "add_only": True,
        },
        "engines": [
            {"name": "exhaust", "path": "harness/src/exhaust", "serves_properties": ["C01", "C04", "C09", "C11", "C14", "C15", "C16", "C19"],
             "kind_free_text": "exhaustive enumeration / BFS of real component structs against reference models"},
            {"name": "solo", "path": "harness/src/solo", "serves_properties": ["C02", "C04", "C05", "C06", "C07", "C10", "C14", "C17", "C18", "C19"],
             "kind_free_text": "explicit-state BFS of one real VirtualSocket polled by hand (scripted peer, scripted application, virtual clock), fingerprint de-duplication"},
            {"name": "duo", "path": "harness/src/duo", "serves_properties": ["C01", "C02", "C03", "C08", "C09", "C12", "C13", "C14"],
             "kind_free_text": "deviation-bounded exhaustive fault/schedule enumeration of two real UtpSockets over a simulated network under a paused clock"},
        ],
        "checks": [],
        "not_applicable": [],
        "notes": "All checks: ./check <id> --tier quick|thorough. Exit 0 held / 1 VIOLATION / 2 machinery error. Known findings: known_findings.json.",
    }
    for pid in ALL:
        if pid in CHECKS:
            cat, engine, tech, text, note, ref = CHECKS[pid]
            m["checks"].append({
                "property_id": pid,
                "quick_cmd": f"./check {pid} --tier quick",
                "thorough_cmd": f"./check {pid} --tier thorough",
                "evidence_file": f"/verif/evidence/{pid}.json",
                "replay_cmd_template": f"./check {pid} --replay {{path}}",
                "engine": engine,
                "level_claimed": {"category": cat, "text": text, "design_ref": ref},
                "level_note": note,
                "technique": tech,
            })
        else:
            m["not_applicable"].append({"property_id": pid, "reason": PENDING_REASON})
    json.dump(m, open("/verif/MANIFEST.json", "w"), indent=1)
    print("wrote MANIFEST.json:", len(m["checks"]), "checks,", len(m["not_applicable"]), "not claimed")

main()
