//! C11: parser / serialiser against an independent BEP-29 reference (exhaust::wire), plus the last
//! sentence of the statement - everything the library *emits* is accepted by that reference parser,
//! is version 1 and carries the connection id owed to its direction - checked on every datagram of
//! (a) two real sockets under every fault plan up to the bound, (b) every socket-event sequence up
//! to the bound (including the RESET that refuses a SYN when the backlog is full), (c) every state
//! of the handshake / teardown and MTU drivers of a single connection.
use super::solo_drivers::*;
use super::sockets::{explore_c13, A13};
use crate::common::*;
use crate::duo::{explore::*, lib, oracles, scenario::*};
use serde_json::json;

fn judge(_scn: &Scenario, _p: &Plan, l: &RunLog) -> Vec<oracles::Finding> {
    let mut v = oracles::emitted_wellformed(l);
    v.extend(oracles::emitted_ids(l));
    v
}

pub fn run(ctx: &Ctx) -> Outcome {
    let mut out = crate::exhaust::wire::run(ctx);
    let always = |_: &RunLog, _: &WireEventLite| true;
    let mut scns = lib::core();
    scns.push(lib::mtu_transfer(700, Some(600), None, 6_000, false));
    scns.push(lib::mtu_transfer(1500, None, Some(1200), 6_000, true));
    for scn in scns.iter() {
        let mtu = scn.name.starts_with("mtu");
        let cfg = ExploreCfg { max_dev: if mtu { 1 } else { ctx.tier.pick(1, 2) }, min_k: 0, fates: fates_basic(), eligible: &always, judge: &judge, max_runs: ctx.tier.pick(20_000, 1_000_000) };
        let r = explore(ctx, scn, &cfg);
        let mut p = Part::fe(&format!("duo-emitted:{}", scn.name));
        p.kind = "model_checking";
        p.states = r.distinct_traces;
        p.transitions = r.runs;
        p.evaluations = r.datagrams_validated;
        p.distinct_nontrivial = r.distinct_traces;
        p.distinct_outcomes = r.outcome_classes.len() as u64;
        p.bound = format!("every datagram of every fault plan with <= {} deviations (SYN and SYN-ACK included); per level {:?}; {} datagrams validated", r.completed_bound, r.per_level, r.datagrams_validated);
        if let Some(c) = &r.capped {
            p.caps_hit.push(c.clone());
            p.exhaustive = false;
        }
        p.samples.push(json!({"scenario": scn.name, "plan": []}));
        out.violations.extend(findings_to_violations(scn, &r.findings, &judge));
        out.parts.push(p);
    }
    use A13::*;
    explore_c13(ctx, "sock:c11-backlog", &[SynBurst33, SynFresh, Accept, Settle], ctx.tier.pick(3, 4), 64, false, &[1], &mut out);
    explore_c13(ctx, "sock:c11-connect", &[Connect, SynFresh, SynDup, Accept, CloseOldest, Settle], ctx.tier.pick(4, 5), 64, false, &[1], &mut out);
    explore_c13(ctx, "sock:c11-limit2", &[SynFresh, Connect, Accept, CloseOldest], ctx.tier.pick(4, 5), 2, false, &[1], &mut out);
    let d = ctx.tier.pick(4, 6);
    for drv in fsm_all(ctx.tier, d) {
        run_and_report(ctx, &drv, &mut out);
    }
    run_and_report(ctx, &mtu(ctx.tier, 700, Some(600), None, 1, ctx.tier.pick(6, 8)), &mut out);
    out.rule = format!("{}; emitted datagrams: every datagram put on the simulated wire in every explored execution is re-parsed by the reference parser and its connection id is compared with the id announced by the SYN of its connection", out.rule);
    out
}
