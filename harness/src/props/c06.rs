//! C06 retransmission discipline (solo).
use super::solo_drivers::*;
use crate::common::*;

pub fn run(ctx: &Ctx) -> Outcome {
    let mut out = Outcome::default();
    let d = ctx.tier.pick(7, 9);
    run_and_report(ctx, &rtx(ctx.tier, 2, false, d), &mut out);
    run_and_report(ctx, &rtx(ctx.tier, 5, true, d), &mut out);
    run_and_report(ctx, &rtx_after_recovery_rto(ctx.tier, ctx.tier.pick(7, 9)), &mut out);
    run_and_report(ctx, &rtx_piggyback(ctx.tier, ctx.tier.pick(6, 8)), &mut out);
    // many consecutive timeouts (the 60 s ceiling of the back-off), and a transport that refuses a datagram
    // now and then (a refusal is not a transmission)
    run_and_report(ctx, &rtx_long_backoff(ctx.tier, 15), &mut out);
    for r in [1usize, 2] {
        run_and_report(ctx, &rtx_refused(ctx.tier, r, ctx.tier.pick(7, 9)), &mut out);
    }
    run_and_report(ctx, &rtx_after_fast_recovery(ctx.tier, ctx.tier.pick(6, 8)), &mut out);
    run_and_report(ctx, &rtx_after_long_recovery(ctx.tier, ctx.tier.pick(6, 8)), &mut out);
    run_and_report(ctx, &mtu(ctx.tier, 700, Some(600), None, 0, ctx.tier.pick(6, 8)), &mut out);
    run_and_report(ctx, &mtu(ctx.tier, 700, None, None, 0, ctx.tier.pick(6, 8)), &mut out);
    run_and_report(ctx, &mtu_probe_sacked(ctx.tier, 0, ctx.tier.pick(6, 8)), &mut out);
    run_and_report(ctx, &mtu_probe_sacked(ctx.tier, 1, ctx.tier.pick(6, 8)), &mut out);
    out.rule = "C06: explicit-state BFS over loss / ACK / SACK / stale-ACK histories x timer expiries; monitors judge timing (via the observed RTO and timers), fast retransmit, the retry cap, never-retransmit-acknowledged and content stability from the wire".into();
    out.assumptions.push("the RTO value in force is read through the hook observer (its correctness is C16's job); duplicate ACKs are counted per RFC 5681 for a peer that never used SACK and per SACK-bearing ACK otherwise".into());
    out
}
