//! `solo`: explicit-state model checking of ONE real connection (`VirtualSocket`) polled by hand,
//! with a scripted peer, a scripted application and tokio's paused clock as the environment.

pub mod bfs;
pub mod monitors;
pub mod sched;
pub mod threads;
pub mod world;
