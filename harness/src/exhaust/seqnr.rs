//! C09 (a): the 16-bit sequence arithmetic against true modular distance, for ALL 2^32 pairs.

use librqbit_utp::verif::{
    seq_nr_offset, SeqNr, IPV4_HEADER, RX_BUF_SIZE_PER_VSOCK_DEFAULT,
    TX_BUF_SIZE_PER_VSOCK_MAX_DEFAULT, UDP_HEADER, UTP_HEADER, WRAP_TOLERANCE,
};
use rayon::prelude::*;
use serde_json::{json, Value};
use std::cmp::Ordering;

use crate::common::*;

/// Largest distance (in segments) the *default* windows admit: the larger default buffer divided by
/// the smallest default segment payload (IPv4 minimum MTU 576). Derived from configuration constants,
/// not from the arithmetic under test.
pub fn max_window_distance() -> isize {
    let buf = RX_BUF_SIZE_PER_VSOCK_DEFAULT
        .get()
        .max(TX_BUF_SIZE_PER_VSOCK_MAX_DEFAULT.get());
    let min_mss = 576 - (IPV4_HEADER + UDP_HEADER + UTP_HEADER) as usize;
    (buf / min_mss) as isize
}

fn check_pair(new: u16, old: u16, d_max: isize) -> Option<(&'static str, String)> {
    let d = new.wrapping_sub(old) as i16 as isize; // true modular distance in [-32768, 32767]
    let off = seq_nr_offset(new, old, WRAP_TOLERANCE);
    let sub = SeqNr(new) - SeqNr(old);
    if off != sub {
        return Some((
            "sub-vs-offset",
            format!("SeqNr({new})-SeqNr({old})={sub} but seq_nr_offset={off}"),
        ));
    }
    if (off == 0) != (new == old) {
        return Some(("zero", format!("offset({new},{old})={off}")));
    }
    let rev = seq_nr_offset(old, new, WRAP_TOLERANCE);
    if rev != -off {
        return Some((
            "antisymmetry",
            format!("offset({new},{old})={off} but offset({old},{new})={rev}"),
        ));
    }
    let ord = SeqNr(new).cmp(&SeqNr(old));
    if ord != off.cmp(&0) {
        return Some(("ord-vs-offset", format!("cmp({new},{old})={ord:?} offset={off}")));
    }
    if d.abs() <= d_max {
        if off != d {
            return Some((
                "distance-within-window",
                format!(
                    "offset({new},{old})={off}, true modular distance {d} (|d| <= {d_max} segments the default windows admit; WRAP_TOLERANCE={WRAP_TOLERANCE})"
                ),
            ));
        }
        let want = d.cmp(&0);
        if ord != want {
            return Some((
                "order-within-window",
                format!("cmp({new},{old})={ord:?}, true distance {d}"),
            ));
        }
    }
    let _ = Ordering::Equal;
    None
}

pub fn run(ctx: &Ctx) -> Outcome {
    let d_max = max_window_distance();
    // all 2^32 pairs in both tiers (about a second on 16 cores)
    let per_new: Vec<(u64, Option<(u16, u16, &'static str, String)>)> = (0u32..65536)
        .into_par_iter()
        .map(|new| {
            let new = new as u16;
            let mut first: Option<(u16, u16, &'static str, String)> = None;
            let mut bad = 0u64;
            for old in 0u32..65536 {
                let old = old as u16;
                if let Some((k, m)) = check_pair(new, old, d_max) {
                    bad += 1;
                    let dist = (new.wrapping_sub(old) as i16 as isize).abs();
                    let better = match &first {
                        None => true,
                        Some((n0, o0, _, _)) => {
                            dist < (n0.wrapping_sub(*o0) as i16 as isize).abs()
                        }
                    };
                    if better {
                        first = Some((new, old, k, m));
                    }
                }
            }
            (bad, first)
        })
        .collect();
    let mut out = Outcome::default();
    let mut part = Part::mc("seq-arith-all-pairs");
    part.states = 1u64 << 32;
    part.transitions = 1u64 << 32;
    part.distinct_outcomes = 0;
    part.bound = format!("all 65536x65536 (new, old) pairs; distances up to {d_max} must be exact");
    let bad_total: u64 = per_new.iter().map(|x| x.0).sum();
    part.extra.insert("pairs_failing".into(), json!(bad_total));
    part.samples = vec![
        json!({"new": 0, "old": 65535, "offset": seq_nr_offset(0, 65535, WRAP_TOLERANCE), "true_distance": 1}),
        json!({"new": 1985, "old": 65535, "offset": seq_nr_offset(1985, 65535, WRAP_TOLERANCE), "true_distance": 1986}),
        json!({"new": 40000, "old": 100, "offset": seq_nr_offset(40000, 100, WRAP_TOLERANCE), "true_distance": (40000u16.wrapping_sub(100) as i16)}),
    ];
    // shortest-distance counterexample per kind
    let mut best: std::collections::BTreeMap<&'static str, (u16, u16, String)> = Default::default();
    for (_, f) in &per_new {
        if let Some((n, o, k, m)) = f {
            let dist = (n.wrapping_sub(*o) as i16 as isize).abs();
            let e = best.entry(k).or_insert((*n, *o, m.clone()));
            if dist < (e.0.wrapping_sub(e.1) as i16 as isize).abs() {
                *e = (*n, *o, m.clone());
            }
        }
    }
    part.distinct_outcomes = 1 + best.len() as u64;
    for (k, (n, o, m)) in best {
        out.violations.push(Violation {
            property: "C09".into(),
            monitor: "seq-arith".into(),
            signature: format!("seq-arith/{k}"),
            detail: format!("{m}; {bad_total} of 2^32 pairs fail in total"),
            replay: json!({"engine": "exhaust", "check": "seqnr", "new": n, "old": o}),
        });
    }
    out.parts.push(part);
    out.rule = "C09a: every (new, old) pair of 16-bit values; non-trivial = all (each pair is a distinct input)".into();
    out.assumptions.push(format!(
        "distance bound D={d_max} = max(default rx buffer, default tx buffer max) / smallest default MSS (528)"
    ));
    let _ = ctx;
    out
}

pub fn replay(r: &Value) -> i32 {
    let new = r["new"].as_u64().unwrap_or(0) as u16;
    let old = r["old"].as_u64().unwrap_or(0) as u16;
    let d_max = max_window_distance();
    println!(
        "seq_nr_offset({new}, {old}, {WRAP_TOLERANCE}) = {}; true modular distance = {}",
        seq_nr_offset(new, old, WRAP_TOLERANCE),
        new.wrapping_sub(old) as i16
    );
    match check_pair(new, old, d_max) {
        Some((k, m)) => {
            println!("REPLAY-VIOLATION seq-arith/{k}: {m}");
            1
        }
        None => {
            println!("REPLAY-OK");
            0
        }
    }
}
