#!/usr/bin/env python3
"""Detection matrix: applies each seeded change to /repo's working tree, runs the given checks, reverts.
usage: matrix.py <tier> <seed-id>:<Cxx>[,<Cxx>...] ...     results appended to /verif/seeded/matrix.json"""
import json, os, subprocess, sys
tier = sys.argv[1]
path = '/verif/seeded/matrix.json'
m = json.load(open(path)) if os.path.exists(path) else {}
def sh(c, cwd=None):
    p = subprocess.run(c, shell=True, cwd=cwd, capture_output=True, text=True)
    return p.returncode, p.stdout + p.stderr
for spec in sys.argv[2:]:
    sid, props = spec.split(':')
    src = f'/verif/seeded/{sid}/patch.diff' if os.path.exists(f'/verif/seeded/{sid}/patch.diff') else f'/tmp/seedout/{sid}/patch.diff'
    code, out = sh('git diff --quiet', cwd='/repo')
    if code != 0:
        print('/repo dirty'); sys.exit(2)
    code, out = sh(f'git apply {src}', cwd='/repo')
    if code != 0:
        print(sid, 'patch does not apply'); continue
    try:
        for p in props.split(','):
            code, out = sh(f'./check {p} --tier {tier}', cwd='/verif')
            sigs = [l.split('signature=')[1].strip() for l in out.splitlines() if l.startswith('  monitor=') and 'signature=' in l]
            viol = [l for l in out.splitlines() if l.startswith('VIOLATION')]
            m.setdefault(sid, {})[f'{p}:{tier}'] = {'exit': code, 'violations': len(viol), 'signatures': sigs[:6]}
            print(sid, p, tier, 'exit', code, sigs[:3], flush=True)
    finally:
        sh('git checkout -- . && git clean -fdq -e target', cwd='/repo')
    json.dump(m, open(path, 'w'), indent=1)
