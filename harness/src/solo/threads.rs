//! Thread-interleaving exploration on top of the solo World: from every state a driver reaches
//! within a few sequential actions, every combination of (one connection action, one write-half
//! action, one read-half action) is run on real threads under the controlled scheduler
//! (solo::sched), through every interleaving of their critical sections up to a preemption bound.
//! The monitors judge the quiescent state after the concurrent step exactly as after a sequential one.

use rayon::prelude::*;
use rustc_hash::FxHashMap;
use serde_json::json;

use super::bfs::{execute, hash128, with_rt, Driver};
use super::monitors::{Finding, Monitors};
use super::sched::{explore_schedules, SchedOutcome};
use super::world::*;
use crate::common::*;

fn role(a: &Act) -> Option<usize> {
    match a {
        Act::Deliver(_) | Act::Spurious | Act::Tick => Some(0),
        Act::Write(_) | Act::Flush | Act::Shutdown | Act::DropWriter | Act::RepollWriterOtherTask => Some(1),
        Act::Read(_) | Act::DropReader | Act::RepollReaderOtherTask => Some(2),
        _ => None,
    }
}

pub struct ParRun {
    pub findings: Vec<Finding>,
    pub sched: SchedOutcome,
    pub fp: u128,
}

/// prefix + history sequentially, then the concurrent step under `sched`, then (optionally) one more
/// sequential action. None if something is not applicable.
pub fn run_par(d: &Driver, hist: &[u8], ops: &[Act], sched: &[u8], suffix: Option<&Act>) -> Option<ParRun> {
    let describe = || replay_json(d, hist, ops, sched, suffix);
    let _guard = RunGuard::new(&describe);
    with_rt(|rt| {
        rt.block_on(async {
            let mut w = World::new(&d.cfg);
            let mut m = Monitors::new(&d.cfg);
            w.spawn_poll();
            m.check(&w, None);
            for a in d.prefix.iter().chain(hist.iter().map(|i| &d.alphabet[*i as usize])) {
                if !w.step(a).await {
                    return None;
                }
                m.check(&w, Some(a));
            }
            let par = Act::Par { ops: ops.to_vec(), sched: sched.to_vec() };
            if !w.step(&par).await {
                return None;
            }
            let mut findings = m.check(&w, Some(&par));
            let so = w.trace.last().and_then(|r| r.sched.clone()).unwrap_or_default();
            if let Some(a) = suffix {
                if w.step(a).await {
                    findings.extend(m.check(&w, Some(a)));
                }
            }
            let mut v = w.fingerprint();
            m.digest(&w, &mut v);
            Some(ParRun { findings, sched: so, fp: hash128(&v) })
        })
    })
}

pub fn replay_json(d: &Driver, hist: &[u8], ops: &[Act], sched: &[u8], suffix: Option<&Act>) -> serde_json::Value {
    let mut actions: Vec<Act> = hist.iter().map(|i| d.alphabet[*i as usize].clone()).collect();
    actions.push(Act::Par { ops: ops.to_vec(), sched: sched.to_vec() });
    if let Some(a) = suffix {
        actions.push(a.clone());
    }
    json!({"engine": "solo", "driver": d.name, "cfg": d.cfg, "prefix": d.prefix, "actions": actions})
}

/// Which findings of a concurrent step are judged: everything that does not depend on the *order*
/// of the concurrent operations within the step (wake-up completeness at quiescence, payload
/// integrity, buffer bounds, panics / deadlocks, wire well-formedness).
fn judged(f: &Finding) -> bool {
    if std::env::var("VERIF_THREADS_ALL").is_ok() {
        return true;
    }
    let s = f.signature.as_str();
    s.starts_with("wake/")
        || s.starts_with("stall/")
        || s.starts_with("integrity/")
        || s.starts_with("payload/")
        || s.starts_with("txbuf/")
        || s.starts_with("buffer/")
        || s.starts_with("panic/")
        || s.starts_with("bug-error/")
        || s.starts_with("emitted/")
        || s.starts_with("eof/")
        || s.starts_with("ack/acknowledges-data-never-received")
        || s.starts_with("ack/acknowledged-data-lost-to-a-reader-error")
        || s.starts_with("ack/acknowledged-data-not-readable")
        || s.starts_with("ack/moved-backwards")
}

#[derive(Clone, Copy)]
pub struct ThreadsCfg {
    /// sequential depth from which concurrent steps start
    pub base_depth: usize,
    pub preemption_bound: Option<usize>,
    pub max_runs_per_case: u64,
    /// also run every single alphabet action after the concurrent step
    pub with_suffix: bool,
    /// combine three threads (connection, writer, reader) as well as pairs
    pub triples: bool,
    /// a half may perform two consecutive operations on its thread (two writes / two reads: a task
    /// that continues after a successful call) against one connection action
    pub doubles: bool,
    /// share of the remaining time budget this part may use (so that later parts get their turn)
    pub budget_share: f64,
}

pub fn explore_threads(ctx: &Ctx, d: &Driver, tc: &ThreadsCfg, out: &mut Outcome) {
    // 1. base states: BFS by fingerprint over the driver's alphabet
    let mut seen: FxHashMap<u128, ()> = FxHashMap::default();
    let mut level: Vec<Vec<u8>> = vec![vec![]];
    let mut bases: Vec<Vec<u8>> = vec![vec![]];
    if let Some((o, _)) = execute(d, &[], false) {
        seen.insert(o.fp, ());
    }
    for _ in 0..tc.base_depth {
        let next: Vec<(Vec<u8>, u128, bool)> = level
            .par_iter()
            .flat_map_iter(|h| {
                (0..d.alphabet.len() as u8).filter_map(move |a| {
                    let mut h2 = h.clone();
                    h2.push(a);
                    execute(d, &h2, false).map(|(o, _)| (h2, o.fp, o.terminal))
                })
            })
            .collect();
        level = vec![];
        for (h, fp, terminal) in next {
            if seen.insert(fp, ()).is_none() && !terminal {
                level.push(h.clone());
                bases.push(h);
            }
        }
    }
    // 2. operation combinations
    let by_role = |r: usize| -> Vec<Act> { d.alphabet.iter().filter(|a| role(a) == Some(r)).cloned().collect() };
    let (dops, wops, rops) = (by_role(0), by_role(1), by_role(2));
    let mut combos: Vec<Vec<Act>> = vec![];
    for a in &dops {
        for b in &wops {
            combos.push(vec![a.clone(), b.clone()]);
        }
        for c in &rops {
            combos.push(vec![a.clone(), c.clone()]);
        }
    }
    for b in &wops {
        for c in &rops {
            combos.push(vec![b.clone(), c.clone()]);
        }
    }
    if tc.triples {
        for a in &dops {
            for b in &wops {
                for c in &rops {
                    combos.push(vec![a.clone(), b.clone(), c.clone()]);
                }
            }
        }
    }
    if tc.doubles {
        for a in &dops {
            for b1 in wops.iter().filter(|x| matches!(x, Act::Write(_))) {
                for b2 in wops.iter().filter(|x| matches!(x, Act::Write(_) | Act::Flush)) {
                    combos.push(vec![a.clone(), b1.clone(), b2.clone()]);
                }
            }
            for c1 in rops.iter().filter(|x| matches!(x, Act::Read(_))) {
                for c2 in rops.iter().filter(|x| matches!(x, Act::Read(_))) {
                    combos.push(vec![a.clone(), c1.clone(), c2.clone()]);
                }
            }
        }
    }
    let cases: Vec<(&Vec<u8>, &Vec<Act>)> = bases.iter().flat_map(|h| combos.iter().map(move |c| (h, c))).collect();
    let t0 = std::time::Instant::now();
    let budget = (ctx.budget_left() * tc.budget_share).max(5.0);
    struct CaseRes {
        runs: u64,
        capped: bool,
        skipped: bool,
        outcomes: usize,
        max_decisions: usize,
        findings: Vec<(Finding, Vec<u8>, Option<Act>)>,
        diverged: bool,
    }
    let results: Vec<CaseRes> = cases
        .par_iter()
        .map(|(h, ops)| {
            let mut cr = CaseRes { runs: 0, capped: false, skipped: false, outcomes: 0, max_decisions: 0, findings: vec![], diverged: false };
            if t0.elapsed().as_secs_f64() > budget - 3.0 {
                cr.skipped = true;
                return cr;
            }
            let mut fps = std::collections::HashSet::new();
            let suffixes: Vec<Option<Act>> = if tc.with_suffix { std::iter::once(None).chain(d.alphabet.iter().cloned().map(Some)).collect() } else { vec![None] };
            let (runs, capped) = explore_schedules(tc.preemption_bound, tc.max_runs_per_case, |prefix| {
                let r = run_par(d, h, ops, prefix, None)?;
                // (equal fingerprints have equal futures: the suffix actions are run once per distinct outcome)
                let new_outcome = fps.insert(r.fp);
                cr.max_decisions = cr.max_decisions.max(r.sched.decisions.len());
                cr.diverged |= r.sched.diverged;
                let full: Vec<u8> = r.sched.decisions.iter().map(|x| x.chosen).collect();
                for f in r.findings.iter().filter(|f| judged(f)) {
                    cr.findings.push((f.clone(), full.clone(), None));
                }
                for sfx in suffixes.iter().skip(1).filter(|_| new_outcome) {
                    if let Some(r2) = run_par(d, h, ops, &full, sfx.as_ref()) {
                        for f in r2.findings.iter().filter(|f| judged(f)) {
                            if !r.findings.iter().any(|g| g.signature == f.signature) {
                                cr.findings.push((f.clone(), full.clone(), sfx.clone()));
                            }
                        }
                    }
                }
                Some(r.sched)
            });
            cr.runs = if fps.is_empty() { 0 } else { runs };
            cr.capped = capped;
            cr.outcomes = fps.len();
            cr
        })
        .collect();
    // 3. report
    let mut p = Part::mc(&format!("threads:{}", d.name));
    let mut best: std::collections::BTreeMap<String, (Finding, Vec<u8>, Vec<Act>, Vec<u8>, Option<Act>)> = Default::default();
    let (mut skipped, mut capped, mut executed_cases, mut nontrivial, mut max_dec) = (0u64, 0u64, 0u64, 0u64, 0usize);
    for ((h, ops), cr) in cases.iter().zip(results.iter()) {
        if cr.skipped {
            skipped += 1;
            continue;
        }
        if cr.runs == 0 {
            continue; // combination not applicable in this state
        }
        if cr.diverged {
            machinery_error(&format!("threads:{}: a schedule prefix did not replay (nondeterministic decision points) in history {:?} ops {:?}", d.name, h, ops));
        }
        executed_cases += 1;
        p.transitions += cr.runs;
        p.states += cr.outcomes as u64;
        if cr.outcomes > 1 {
            nontrivial += 1;
        }
        max_dec = max_dec.max(cr.max_decisions);
        if cr.capped {
            capped += 1;
        }
        for (f, sched, sfx) in &cr.findings {
            let key = format!("{}|{}", f.property, f.signature);
            let cand = (f.clone(), (*h).clone(), (*ops).clone(), sched.clone(), sfx.clone());
            match best.get(&key) {
                Some(b) if b.1.len() + b.3.len() <= h.len() + sched.len() => {}
                _ => {
                    best.insert(key, cand);
                }
            }
        }
    }
    p.evaluations = p.transitions;
    p.distinct_nontrivial = nontrivial;
    p.distinct_outcomes = p.states.min(100_000);
    p.bound = format!(
        "{} base states (all histories of <= {} actions, merged by fingerprint) x {} combinations of concurrent operations (connection x write half x read half{}{}); every interleaving of the threads' critical sections with {} (longest schedule {} decisions){}; {} applicable cases, {} with more than one distinct outcome",
        bases.len(),
        tc.base_depth,
        combos.len(),
        if tc.triples { ", pairs and triples" } else { ", pairs" },
        if tc.doubles { ", a half may do two consecutive operations" } else { "" },
        match tc.preemption_bound {
            Some(b) => format!("<= {b} preemptions"),
            None => "any number of preemptions".into(),
        },
        max_dec,
        if tc.with_suffix { "; each followed by every single sequential action" } else { "" },
        executed_cases,
        nontrivial
    );
    if skipped > 0 {
        p.caps_hit.push(format!("time budget: {skipped} of {} cases not executed", cases.len()));
        p.exhaustive = false;
    }
    if capped > 0 {
        p.caps_hit.push(format!("{capped} cases hit the per-case cap of {} schedules", tc.max_runs_per_case));
        p.exhaustive = false;
    }
    p.samples.push(json!({"driver": d.name, "history": [], "concurrent": combos.first().map(|c| format!("{c:?}")), "schedule": [0, 1, 0]}));
    for (_, (f, h, ops, sched, sfx)) in best {
        // a violation must reproduce, twice, from its recorded schedule
        for _ in 0..2 {
            let again = run_par(d, &h, &ops, &sched, sfx.as_ref()).map(|r| r.findings).unwrap_or_default();
            if !again.iter().any(|g| g.signature == f.signature && g.property == f.property) {
                machinery_error(&format!("threads finding {} (driver {}, history {:?}, ops {:?}, schedule {:?}) did not reproduce", f.signature, d.name, h, ops, sched));
            }
        }
        out.violations.push(Violation {
            property: f.property.to_string(),
            monitor: f.monitor.to_string(),
            signature: f.signature.clone(),
            detail: format!(
                "[driver {} history {:?} then CONCURRENTLY {:?} under thread schedule {:?}{}] {}",
                d.name,
                super::bfs::describe(d, &h),
                ops,
                sched,
                sfx.as_ref().map(|a| format!(" then {a:?}")).unwrap_or_default(),
                f.detail
            ),
            replay: replay_json(d, &h, &ops, &sched, sfx.as_ref()),
        });
    }
    if executed_cases > 0 && nontrivial == 0 {
        machinery_error(&format!("threads:{} is vacuous: no case has more than one outcome", d.name));
    }
    out.parts.push(p);
}
