//! C08 termination / slot release / silence afterwards (duo).

use crate::common::*;
use crate::duo::{explore::*, lib, oracles, scenario::*, sim::Fate};
use rayon::prelude::*;
use serde_json::json;

pub fn prepare(mut s: Scenario, max_live: usize, cycles: usize) -> Scenario {
    s.a.inactivity_ms = 3_000;
    s.b.inactivity_ms = 3_000;
    s.a.max_live = max_live;
    s.b.max_live = max_live;
    s.horizon_s = 60;
    s.cycles = cycles;
    s.name = format!("{}+live{}x{}", s.name, max_live, cycles);
    s
}

fn judge_plan(scn: &Scenario, _p: &Plan, l: &RunLog) -> Vec<oracles::Finding> {
    let mut v = oracles::termination(scn, l, None, RELEASE_BOUND_US);
    v.extend(oracles::integrity(l));
    v.extend(oracles::no_panic_no_bug(l));
    v
}

fn judge_abort(scn: &Scenario, base: &RunLog, abort: &Abort, l: &RunLog) -> Vec<oracles::Finding> {
    let cancel = match abort {
        Abort::CancelAt(k, a) => l.wire.iter().chain(base.wire.iter()).find(|w| w.k == *k).map(|w| (w.t_us, if *a { Side::A } else { Side::B })),
        _ => None,
    };
    let mut v = oracles::termination(scn, l, cancel, RELEASE_BOUND_US);
    if let Some((tc, side)) = cancel {
        // "all stream halves then report errors": pending and later calls of the cancelled side resolve promptly
        v.extend(oracles::bounded_failure("C08", l, tc, 1_000_000, &[side], true).into_iter().map(|mut f| {
            f.signature = f.signature.replace("abort/", "cancel/");
            f
        }));
        v.extend(oracles::errors_after_death(l).into_iter().map(|mut f| {
            f.property = "C08";
            f.signature = f.signature.replace("abort/", "cancel/");
            f
        }));
    }
    v.extend(oracles::no_panic_no_bug(l));
    v
}

pub fn run(ctx: &Ctx) -> Outcome {
    let mut out = Outcome::default();
    let closing = |l: &RunLog, w: &WireEventLite| {
        let first_fin = l.wire.iter().filter(|x| x.ptype == 1 && !x.injected).map(|x| x.k).min();
        // a lost SYN is never retransmitted by the library (connect just waits): not a closing packet
        first_fin.map(|k0| w.k >= k0).unwrap_or(false) && w.ptype != 4
    };
    // (1) close orders x loss of subsets of the closing packets, 3 cycles with a connection limit of 1
    let scenarios: Vec<Scenario> = vec![lib::a2b_bulk(), lib::drop_close(), lib::fin_behind_data(), lib::both_ways(), lib::ping_pong(), lib::idle_shutdown()];
    let n = scenarios.len();
    for base_scn in scenarios.iter().take(n) {
        let scn = prepare(base_scn.clone(), 1, 3);
        let cfg = ExploreCfg { max_dev: ctx.tier.pick(2, 3), min_k: 2, fates: vec![Fate::Drop, Fate::Dup], eligible: &closing, judge: &judge_plan, max_runs: ctx.tier.pick(10_000, 400_000) };
        let r = explore(ctx, &scn, &cfg);
        let mut p = Part::fe(&format!("duo-cycles:{}", scn.name));
        p.evaluations = r.runs;
        p.distinct_nontrivial = r.distinct_traces;
        p.distinct_outcomes = r.outcome_classes.len() as u64;
        p.bound = format!("3 connect/transfer/close cycles on one socket pair with max_live_vsocks=1; all plans of <= {} drop/dup deviations on the packets from the first FIN on (any cycle); per level {:?}", r.completed_bound, r.per_level);
        if let Some(c) = &r.capped {
            p.caps_hit.push(c.clone());
            p.exhaustive = false;
        }
        p.extra.insert("outcome_classes".into(), json!(r.outcome_classes));
        p.samples.push(json!({"scenario": scn.name, "plan": "drop the first FIN of cycle 1"}));
        out.violations.extend(findings_to_violations(&scn, &r.findings, &judge_plan));
        out.parts.push(p);
    }
    // (2) every cut / reset / cancel point (single cycle, connection limit 2)
    for base_scn in scenarios.iter().take(n) {
        let mut scn = prepare(base_scn.clone(), 2, 1);
        for app in [&mut scn.app_a, &mut scn.app_b] {
            if !app.writer.iter().any(|o| matches!(o, WOp::Drop)) {
                app.writer.push(WOp::ProbeAfterDeath);
            }
        }
        let base = determinism_check(&scn, &Abort::None);
        let aborts = crate::props::c03::aborts_for(base.n_sends, &["cut", "reset", "cancel"]);
        let results: Vec<(Vec<oracles::Finding>, u64, String)> = aborts
            .par_iter()
            .map(|a| {
                let l = crate::duo::scenario::run(&scn, &[], a);
                (judge_abort(&scn, &base, a, &l), l.trace_hash, classify(&l))
            })
            .collect();
        let mut p = Part::fe(&format!("duo-abort:{}", scn.name));
        let mut seen = std::collections::HashSet::new();
        let mut classes = std::collections::BTreeMap::new();
        let mut best: std::collections::BTreeMap<String, (oracles::Finding, Abort)> = Default::default();
        for (a, (fs, h, c)) in aborts.iter().zip(results) {
            p.evaluations += 1;
            if seen.insert(h) {
                p.distinct_nontrivial += 1;
            }
            *classes.entry(c).or_insert(0u64) += 1;
            for f in fs {
                best.entry(format!("{}|{}", f.property, f.signature)).or_insert((f, a.clone()));
            }
        }
        p.distinct_outcomes = classes.len() as u64;
        p.bound = format!("every send index k >= 2 of the run ({} sends) x {{network cut, RESET to either side, cancellation of either socket}}", base.n_sends);
        p.samples.push(json!({"scenario": scn.name, "abort": {"CancelAt": [5, true]}}));
        for (_, (f, a)) in best {
            for _ in 0..2 {
                let l = crate::duo::scenario::run(&scn, &[], &a);
                if !judge_abort(&scn, &base, &a, &l).iter().any(|g| g.signature == f.signature) {
                    machinery_error(&format!("C08 finding {} did not reproduce", f.signature));
                }
            }
            out.violations.push(Violation {
                property: f.property.to_string(),
                monitor: f.monitor.to_string(),
                signature: f.signature.clone(),
                detail: format!("[scenario {} abort {:?}] {}", scn.name, a, f.detail),
                replay: replay_json(&scn, &vec![], &a),
            });
        }
        out.parts.push(p);
    }
    out.rule = "C08: fault plans on the closing packets by deviation bounding over 3-cycle runs under a connection limit of 1; abort points enumerated exhaustively; distinct_nontrivial = executions with distinct timed traces".into();
    out.assumptions.push("'bounded time' = 3 s configured inactivity timeout + 6.2 s RTO back-off sum + 1 s final chance + 1 s slack after the application let go".into());
    out.assumptions.push("connection-object lifetime and the connection-table size are read through the verif hooks (H4/H5); the 3-cycle reconnect under max_live_vsocks=1 confirms slot release without hooks".into());
    out
}
