#!/usr/bin/env python3
"""Confirms a seeded change in a scratch worktree of /repo HEAD (outside /repo and /verif):
  1. patch.diff applies; the repository's own suite still passes with it (76 tests);
  2. demo.diff applies; with the patch the demonstration fails (only tests outside the baseline fail);
  3. without the patch the demonstration passes.
Writes /verif/seeded/<id>/confirm.json and removes the worktree. Usage: confirm_seed.py <seed-dir> [...]"""
import json, os, re, shutil, subprocess, sys

BASE = set(json.load(open('/root/.vp/BASELINE.json'))['stable_pass'])
TARGET = '/tmp/confirm-target'

def sh(cmd, cwd=None, timeout=1800):
    p = subprocess.run(cmd, shell=True, cwd=cwd, capture_output=True, text=True, timeout=timeout,
                       env={**os.environ, 'CARGO_TARGET_DIR': TARGET, 'CARGO_NET_OFFLINE': 'true'})
    return p.returncode, p.stdout + p.stderr

def suite(wt):
    code, out = sh('cargo nextest run --workspace --no-fail-fast --offline 2>&1', cwd=wt)
    passed = set(re.findall(r'^\s+PASS \[.*?\] (?:\([\s\d/]+\)\s+)?librqbit-utp (\S+)', out, re.M))
    failed = set(re.findall(r'^\s+(?:FAIL|SIGABRT|TIMEOUT|SIGSEGV) \[.*?\] (?:\([\s\d/]+\)\s+)?librqbit-utp (\S+)', out, re.M))
    compiled = 'error: could not compile' not in out
    return compiled, passed, failed, out[-3000:]

def norm(names):
    return {'librqbit-utp::' + n for n in names}

def confirm(seed_dir):
    sid = os.path.basename(seed_dir.rstrip('/'))
    wt = f'/tmp/confirm-{sid}'
    res = {'id': sid}
    subprocess.run(f'git -C /repo worktree remove --force {wt}', shell=True, capture_output=True)
    code, out = sh(f'git -C /repo worktree add --detach {wt} HEAD')
    try:
        patch = os.path.join(seed_dir, 'patch.diff')
        demo = os.path.join(seed_dir, 'demo.diff')
        code, out = sh(f'git apply {patch}', cwd=wt)
        res['patch_applies'] = code == 0
        if code != 0:
            res['error'] = out[-500:]
            return res
        for attempt in range(2):
            compiled, passed, failed, tail = suite(wt)
            res['suite_with_patch'] = {'compiled': compiled, 'passed': len(norm(passed) & BASE), 'failed': sorted(failed)}
            if compiled and not failed:
                break  # (a retry covers the fixed-port e2e tests colliding with another run)
        res['suite_passes_with_patch'] = compiled and not failed and len(norm(passed) & BASE) == len(BASE)
        code, out = sh(f'git apply {demo}', cwd=wt)
        res['demo_applies'] = code == 0
        if code != 0:
            res['error'] = out[-500:]
            return res
        compiled, passed, failed, tail = suite(wt)
        demo_failed = sorted(f for f in failed if 'librqbit-utp::' + f not in BASE)
        base_failed = sorted(f for f in failed if 'librqbit-utp::' + f in BASE)
        res['demo_with_patch'] = {'compiled': compiled, 'demo_tests_failing': demo_failed, 'baseline_tests_failing': base_failed}
        res['demo_fails_with_patch'] = compiled and len(demo_failed) > 0
        code, out = sh(f'git apply -R {patch}', cwd=wt)
        compiled, passed, failed, tail = suite(wt)
        res['demo_without_patch'] = {'compiled': compiled, 'failed': sorted(failed), 'passed_total': len(passed)}
        res['demo_passes_without_patch'] = compiled and not [f for f in failed if 'librqbit-utp::' + f not in BASE]
        res['confirmed'] = bool(res['suite_passes_with_patch'] and res['demo_fails_with_patch'] and res['demo_passes_without_patch'])
        return res
    finally:
        subprocess.run(f'git -C /repo worktree remove --force {wt}', shell=True, capture_output=True)
        subprocess.run('git -C /repo worktree prune', shell=True, capture_output=True)

for d in sys.argv[1:]:
    r = confirm(d)
    sid = r['id']
    os.makedirs(f'/verif/seeded/{sid}', exist_ok=True)
    json.dump(r, open(f'/verif/seeded/{sid}/confirm.json', 'w'), indent=1)
    print(sid, 'confirmed' if r.get('confirmed') else 'NOT CONFIRMED', json.dumps({k: v for k, v in r.items() if k in ('patch_applies', 'suite_passes_with_patch', 'demo_fails_with_patch', 'demo_passes_without_patch', 'error')}), flush=True)
