//! Shared plumbing: tiers, outcome/evidence writing, violations, known findings.

use std::{
    collections::BTreeMap,
    hash::{Hash, Hasher},
    path::PathBuf,
    time::Instant,
};

use serde_json::{json, Value};

#[derive(Clone, Copy, PartialEq, Eq, Debug)]
pub enum Tier {
    Quick,
    Thorough,
}

impl Tier {
    pub fn name(self) -> &'static str {
        match self {
            Tier::Quick => "quick",
            Tier::Thorough => "thorough",
        }
    }
    pub fn pick<T>(self, q: T, t: T) -> T {
        match self {
            Tier::Quick => q,
            Tier::Thorough => t,
        }
    }
}

pub struct Ctx {
    pub prop: String,
    pub tier: Tier,
    pub seed: u64,
    pub start: Instant,
    pub verif_dir: PathBuf,
}

impl Ctx {
    /// Seconds of wall clock the engines may still use (quick: 45 s of search, thorough: 20 min).
    pub fn budget_left(&self) -> f64 {
        let total = match self.tier {
            Tier::Quick => 45.0,
            Tier::Thorough => 20.0 * 60.0,
        };
        total - self.start.elapsed().as_secs_f64()
    }
}

#[derive(Clone, Debug)]
pub struct Violation {
    pub property: String,
    /// which monitor / oracle fired
    pub monitor: String,
    /// narrow, stable identification of *what* failed (used to match known findings)
    pub signature: String,
    pub detail: String,
    /// everything needed to re-execute the failing history without the explorer
    pub replay: Value,
}

/// One sub-exploration of a check (a driver, a scenario family, a component sweep).
#[derive(Clone, Debug, Default)]
pub struct Part {
    pub name: String,
    /// "model_checking" or "fault_enumeration"
    pub kind: &'static str,
    pub states: u64,
    pub transitions: u64,
    pub evaluations: u64,
    pub distinct_nontrivial: u64,
    pub distinct_outcomes: u64,
    pub exhaustive: bool,
    pub bound: String,
    pub caps_hit: Vec<String>,
    pub samples: Vec<Value>,
    pub extra: BTreeMap<String, Value>,
}

impl Part {
    pub fn mc(name: &str) -> Self {
        Part {
            name: name.into(),
            kind: "model_checking",
            exhaustive: true,
            ..Default::default()
        }
    }
    pub fn fe(name: &str) -> Self {
        Part {
            name: name.into(),
            kind: "fault_enumeration",
            exhaustive: true,
            ..Default::default()
        }
    }
    pub fn to_json(&self) -> Value {
        json!({
            "name": self.name, "kind": self.kind, "states": self.states, "transitions": self.transitions,
            "evaluations": self.evaluations, "distinct_nontrivial": self.distinct_nontrivial,
            "distinct_outcomes": self.distinct_outcomes, "exhaustive_within_bound": self.exhaustive,
            "bound": self.bound, "caps_hit": self.caps_hit, "extra": self.extra,
        })
    }
}

#[derive(Default)]
pub struct Outcome {
    pub parts: Vec<Part>,
    pub violations: Vec<Violation>,
    pub assumptions: Vec<String>,
    pub rule: String,
    /// informational lines (other properties' monitors etc.)
    pub info: Vec<String>,
}

impl Outcome {
    pub fn merge(&mut self, o: Outcome) {
        self.parts.extend(o.parts);
        self.violations.extend(o.violations);
        for a in o.assumptions {
            if !self.assumptions.contains(&a) {
                self.assumptions.push(a);
            }
        }
        self.info.extend(o.info);
    }
}

/// Exit code 2: machinery problem, never a verdict.
pub fn machinery_error(msg: &str) -> ! {
    eprintln!("MACHINERY-ERROR: {msg}");
    println!("MACHINERY-ERROR: {msg}");
    std::process::exit(2)
}

pub fn hash64<T: Hash>(t: &T) -> u64 {
    let mut h = rustc_hash::FxHasher::default();
    t.hash(&mut h);
    h.finish()
}

#[derive(serde::Deserialize, Debug, Clone)]
pub struct KnownFinding {
    pub property: String,
    pub id: String,
    /// "known" suppresses a matching violation (prints KNOWN-FINDING); "fixed" suppresses nothing.
    pub status: String,
    pub signature: String,
    pub description: String,
    #[serde(default)]
    pub commit: Option<String>,
}

pub fn load_known(ctx: &Ctx) -> Vec<KnownFinding> {
    let p = ctx.verif_dir.join("known_findings.json");
    match std::fs::read_to_string(&p) {
        Ok(s) => match serde_json::from_str::<Vec<KnownFinding>>(&s) {
            Ok(v) => v,
            Err(e) => machinery_error(&format!("known_findings.json unreadable: {e}")),
        },
        Err(_) => vec![],
    }
}

/// Writes evidence, prints verdict lines, returns the process exit code.
pub fn finish(ctx: &Ctx, level: &str, out: Outcome) -> i32 {
    let known = load_known(ctx);
    let mut new_violations: Vec<&Violation> = vec![];
    let mut known_hits: BTreeMap<String, (&KnownFinding, usize)> = BTreeMap::new();
    for v in &out.violations {
        if v.property != ctx.prop {
            continue;
        }
        match known
            .iter()
            .find(|k| k.status == "known" && k.property == v.property && k.signature == v.signature)
        {
            Some(k) => {
                known_hits.entry(k.id.clone()).or_insert((k, 0)).1 += 1;
            }
            None => new_violations.push(v),
        }
    }
    // other properties' monitors are informational only
    let mut info_other: BTreeMap<String, usize> = BTreeMap::new();
    for v in &out.violations {
        if v.property != ctx.prop {
            *info_other
                .entry(format!("{}:{}", v.property, v.signature))
                .or_insert(0) += 1;
        }
    }
    for (k, n) in &info_other {
        println!("INFO: monitor of another property fired ({n}x): {k}");
        if std::env::var("VERIF_INFO_DETAIL").is_ok() {
            if let Some(v) = out.violations.iter().find(|v| &format!("{}:{}", v.property, v.signature) == k) {
                println!("  detail: {}\n  replay: {}", v.detail, v.replay);
            }
        }
    }
    for l in &out.info {
        println!("INFO: {l}");
    }
    for (_, (k, n)) in &known_hits {
        println!(
            "KNOWN-FINDING: property={} {} [{}; {} occurrence(s) this run]",
            k.property, k.description, k.id, n
        );
    }

    // distinct new violations by signature; write replays
    let replay_dir = ctx.verif_dir.join("replays");
    let _ = std::fs::create_dir_all(&replay_dir);
    let mut seen_sig: BTreeMap<String, usize> = BTreeMap::new();
    let mut printed = 0;
    for v in &new_violations {
        let n = seen_sig.entry(v.signature.clone()).or_insert(0);
        *n += 1;
        if *n > 1 {
            if *n <= 3 {
                println!("  also ({}): {}", v.signature, v.detail);
            }
            continue;
        }
        let h = hash64(&(v.signature.clone(), v.replay.to_string()));
        let path = replay_dir.join(format!("{}-{:016x}.json", v.property, h));
        let body = json!({
            "property": v.property, "monitor": v.monitor, "signature": v.signature,
            "detail": v.detail, "replay": v.replay,
        });
        if let Err(e) = std::fs::write(&path, serde_json::to_string_pretty(&body).unwrap()) {
            machinery_error(&format!("cannot write replay {path:?}: {e}"));
        }
        if printed < 20 {
            println!("VIOLATION property={} replay={}", v.property, path.display());
            println!("  monitor={} signature={}", v.monitor, v.signature);
            println!("  {}", v.detail);
            printed += 1;
        }
    }
    for (sig, n) in &seen_sig {
        if *n > 1 {
            println!("  ({n} executions violated with signature {sig}; first one written)");
        }
    }

    // evidence
    let mut states = 0u64;
    let mut transitions = 0u64;
    let mut evaluations = 0u64;
    let mut distinct = 0u64;
    let mut samples: Vec<Value> = vec![];
    let mut exhaustive = true;
    let mut caps: Vec<String> = vec![];
    for p in &out.parts {
        states += p.states;
        transitions += p.transitions;
        evaluations += p.evaluations;
        distinct += p.distinct_nontrivial;
        exhaustive &= p.exhaustive;
        for c in &p.caps_hit {
            caps.push(format!("{}: {}", p.name, c));
        }
        for s in p.samples.iter().take(3) {
            samples.push(json!({"part": p.name, "case": s}));
        }
    }
    let wall = ctx.start.elapsed().as_secs_f64();
    let mut coverage = json!({
        "states": states,
        "transitions": transitions,
        // every visited state / executed history is a state / run of the shipped implementation itself
        "traces_validated_against_impl": transitions.max(evaluations),
        "evaluations": evaluations.max(transitions),
        "distinct_nontrivial": distinct.max(states),
        "rule": out.rule,
        "samples": samples,
        "exhaustive": exhaustive,
        "caps_hit": caps,
        "parts": out.parts.iter().map(|p| p.to_json()).collect::<Vec<_>>(),
        "known_findings_hit": known_hits.iter().map(|(id,(k,n))| json!({"id": id, "signature": k.signature, "occurrences": n})).collect::<Vec<_>>(),
    });
    if level == "fault_enumeration" {
        // keys of the generic (exploration-style) schema are the primary ones here
        coverage["evaluations"] = json!(evaluations.max(1));
        coverage["distinct_nontrivial"] = json!(distinct);
    }
    let ev = json!({
        "property_id": ctx.prop,
        "tier": ctx.tier.name(),
        "seed": ctx.seed,
        "level": level,
        "coverage": coverage,
        "assumptions": out.assumptions,
        "wall_s": wall,
        "violations": seen_sig.len(),
    });
    let evdir = ctx.verif_dir.join("evidence");
    let _ = std::fs::create_dir_all(&evdir);
    let evpath = evdir.join(format!("{}.json", ctx.prop));
    if let Err(e) = std::fs::write(&evpath, serde_json::to_string_pretty(&ev).unwrap()) {
        machinery_error(&format!("cannot write evidence {evpath:?}: {e}"));
    }
    println!(
        "SUMMARY property={} tier={} parts={} states={} transitions={} evaluations={} distinct_nontrivial={} exhaustive_within_bounds={} wall_s={:.1}",
        ctx.prop,
        ctx.tier.name(),
        out.parts.len(),
        states,
        transitions,
        evaluations,
        distinct,
        exhaustive,
        wall
    );
    for p in &out.parts {
        println!(
            "  part {:<28} kind={} states={} transitions={} evals={} nontrivial={} outcomes={} bound=[{}]{}",
            p.name,
            p.kind,
            p.states,
            p.transitions,
            p.evaluations,
            p.distinct_nontrivial,
            p.distinct_outcomes,
            p.bound,
            if p.caps_hit.is_empty() { String::new() } else { format!(" CAPS={:?}", p.caps_hit) }
        );
    }
    if seen_sig.is_empty() {
        0
    } else {
        1
    }
}

// ---------------------------------------------------------------------------------------------
// Wall-clock watchdog: the last line of defence against an execution that never returns (an
// endless loop inside one poll cannot be seen by any in-band counter). Every engine registers the
// execution it is about to run; a watchdog thread turns one that has been running for
// RUN_WALL_LIMIT_S into a verdict with a replay file - executions are deterministic, so the same
// replay hangs every time - instead of letting the check hang.
// ---------------------------------------------------------------------------------------------

pub const RUN_WALL_LIMIT_S: u64 = 120;

/// The replay description is built lazily, by the watchdog, from a closure that lives on the stack
/// of the (hung) executing thread: registration must cost nothing, it happens once per execution.
struct Running {
    since: Instant,
    describe: *const (dyn Fn() -> serde_json::Value + Sync),
}
unsafe impl Send for Running {}

type Slot = std::sync::Arc<parking_lot::Mutex<Option<Running>>>;
static SLOTS: parking_lot::Mutex<Vec<Slot>> = parking_lot::Mutex::new(Vec::new());
static STARTED: std::sync::atomic::AtomicU64 = std::sync::atomic::AtomicU64::new(0);
thread_local! {
    static MY_SLOT: Slot = {
        let s: Slot = Default::default();
        SLOTS.lock().push(s.clone());
        s
    };
    static MY_STARTED: std::cell::Cell<u64> = const { std::cell::Cell::new(0) };
}

pub struct RunGuard<'a> {
    _life: std::marker::PhantomData<&'a ()>,
}

impl<'a> RunGuard<'a> {
    /// `describe` must outlive the guard (declare it before the guard).
    pub fn new(describe: &'a (dyn Fn() -> serde_json::Value + Sync + 'a)) -> RunGuard<'a> {
        MY_STARTED.with(|c| {
            c.set(c.get() + 1);
            if c.get() % 1024 == 0 {
                STARTED.fetch_add(1024, std::sync::atomic::Ordering::Relaxed);
            }
        });
        // SAFETY: the pointer is only dereferenced by the watchdog while it holds the slot lock and
        // the entry is present; Drop removes the entry under the same lock before `describe` dies.
        let p: *const (dyn Fn() -> serde_json::Value + Sync + 'a) = describe;
        let p: *const (dyn Fn() -> serde_json::Value + Sync + 'static) = unsafe { std::mem::transmute(p) };
        MY_SLOT.with(|s| *s.lock() = Some(Running { since: Instant::now(), describe: p }));
        RunGuard { _life: std::marker::PhantomData }
    }
}

impl Drop for RunGuard<'_> {
    fn drop(&mut self) {
        MY_SLOT.with(|s| *s.lock() = None);
    }
}

fn find_hung() -> Option<serde_json::Value> {
    let slots: Vec<Slot> = SLOTS.lock().clone();
    for s in slots {
        let g = s.lock();
        if let Some(r) = g.as_ref() {
            if r.since.elapsed().as_secs() >= RUN_WALL_LIMIT_S {
                // SAFETY: see RunGuard::new
                return Some(unsafe { (*r.describe)() });
            }
        }
    }
    None
}

pub fn start_watchdog(ctx: &Ctx) {
    let prop = ctx.prop.clone();
    let tier = ctx.tier.name().to_string();
    let seed = ctx.seed;
    let dir = ctx.verif_dir.clone();
    let start = ctx.start;
    std::thread::spawn(move || loop {
        std::thread::sleep(std::time::Duration::from_secs(2));
        let Some(replay) = find_hung() else { continue };
        let replay_dir = dir.join("replays");
        let _ = std::fs::create_dir_all(&replay_dir);
        let h = hash64(&replay.to_string());
        let path = replay_dir.join(format!("{prop}-hang-{h:016x}.json"));
        let detail = format!("one deterministic execution did not return within {RUN_WALL_LIMIT_S} s of wall clock (normal executions take milliseconds): the library loops without yielding");
        let body = json!({"property": prop, "monitor": "hang", "signature": "hang/execution-never-returns", "detail": detail, "replay": replay});
        let _ = std::fs::write(&path, serde_json::to_string_pretty(&body).unwrap());
        let n = STARTED.load(std::sync::atomic::Ordering::Relaxed);
        let ev = json!({
            "property_id": prop, "tier": tier, "seed": seed, "level": "other",
            "coverage": {"explanation": format!("run aborted by the wall-clock watchdog after {n} executions had been started: {detail}"), "evaluations": n, "samples": [replay]},
            "wall_s": start.elapsed().as_secs_f64(), "violations": 1,
        });
        let _ = std::fs::create_dir_all(dir.join("evidence"));
        let _ = std::fs::write(dir.join("evidence").join(format!("{prop}.json")), serde_json::to_string_pretty(&ev).unwrap());
        println!("VIOLATION property={prop} replay={}", path.display());
        println!("  monitor=hang signature=hang/execution-never-returns");
        println!("  {detail}");
        std::process::exit(1);
    });
}
