#!/bin/sh
# usage: tools/seedtest.sh <patch.diff> <Cxx> [<Cxx> ...]   - applies a seeded change to /repo, runs the checks, reverts
patch="$1"; shift
cd /repo || exit 2
if ! git diff --quiet; then echo "/repo has uncommitted changes"; exit 2; fi
git apply "$patch" || { echo "patch does not apply"; exit 2; }
for p in "$@"; do
  echo "--- $p with $(basename $(dirname $patch))"
  ( cd /verif && ./check $p --tier ${TIER:-quick} > /tmp/seedtest.out 2>&1; code=$?; grep -E "^(VIOLATION|KNOWN-FINDING|MACHINERY|SUMMARY|  monitor)" /tmp/seedtest.out | cut -c1-220 | head -${LINES_MAX:-14}; echo "exit=$code" )
done
git -C /repo checkout -- . && git -C /repo clean -fdq -e target
